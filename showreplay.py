#!/usr/bin/env python3
import json,sys
r=json.load(open(sys.argv[1]))
c=r['case']; v=r['violation']
print("PROPERTY",r['property'],"CLASS",r['class'],"SITE",r['site'],"DETAIL",r['detail'])
print("AT",v['at']); print("EXPECTED",v['expected'][:600]); print("ACTUAL  ",v['actual'][:600])
print("MINIMISED",r['minimised'])
print("PROGRAM",c['program']['kind'],c['program']['name'])
src=c['program'].get('source')
if src and len(src)<3000: print(src)
print("HOST",c['host']); print("OPS",c['ops']); print("PARAMS",json.dumps(c['params'])[:500]); print("seeds",c['hash_seed'],c['story_seed'])
