#!/bin/bash
# Builds every binary the checks need, offline, from /repo's working tree.
set -e
export CARGO_NET_OFFLINE=true
cd /verif/sim
cargo build --offline --release
cargo build --offline
CARGO_TARGET_DIR=/verif/target/stream cargo build --offline --release --features stream-json-parser
cd /repo
CARGO_TARGET_DIR=/verif/target/cli cargo build --offline --release -p rinklecate
/verif/target/release/inksim list
