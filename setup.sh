#!/bin/bash
# Builds every binary the checks need, offline, from /repo's working tree.
set -e
export CARGO_NET_OFFLINE=true
cd "$(dirname "$0")"
export VERIF_DIR="$(pwd)"
export CARGO_TARGET_DIR="$VERIF_DIR/target"
cd sim
cargo build --offline --release
cargo build --offline
CARGO_TARGET_DIR="$VERIF_DIR/target/stream" cargo build --offline --release --features stream-json-parser
cd /repo
CARGO_TARGET_DIR="$VERIF_DIR/target/cli" cargo build --offline --release -p rinklecate
"$VERIF_DIR/target/release/inksim" list
