#!/usr/bin/env python3
"""Sensitivity matrix: break one property on purpose in /repo's working tree (patch applied,
checks run, patch reverted straight afterwards) and require the targeted quick check to turn
red with a replayable file. Evidence and replay files of these runs go to a scratch VERIF_OUT,
never to /verif/evidence.

  ./run.py                 all entries
  ./run.py NAME [NAME...]  selected entries
"""
import json, os, shutil, subprocess, sys, time

REPO = "/repo"
HERE = os.path.dirname(os.path.abspath(__file__))
VERIF = os.path.dirname(HERE)   # the tree this script lives in (a snapshot of /verif works too)
OUT = "/tmp/verif-sens-out"

# (name, how to produce the change, properties that must fail, properties that must stay green)
ENTRIES = [
 # reverse of each repair: the defect the machinery originally found must be found again
 ("revert-55f573e-stale-flow-copy",      ("revert", "55f573e"), ["C02", "C10"], ["C17"]),
 ("revert-d22ae5a-empty-list-origins",   ("revert", "d22ae5a"), ["C02"], []),
 ("revert-380aeb3-invisible-default",    ("revert", "380aeb3"), ["C02"], []),
 ("revert-6bc5cc8-remove-flow-panic",    ("revert", "6bc5cc8"), ["C09"], []),
 ("revert-37f00d6-observer-removal",     ("revert", "37f00d6"), ["C09", "C11"], []),
 ("revert-16c7164-rejected-continue",    ("revert", "16c7164"), ["C09"], ["C17"]),
 ("revert-e98e3e1-jump-validation",      ("revert", "e98e3e1"), ["C09"], []),
 ("revert-d7c744c-eval-prev-pointer",    ("revert", "d7c744c"), ["C16"], []),
 ("revert-aea2226-arithmetic",           ("revert", "aea2226"), ["C04"], []),
 ("revert-0ca09a4-void-assignment",      ("revert", "0ca09a4"), ["C04"], []),
 ("revert-d797de2-warning-redelivery",   ("revert", "d797de2"), ["C13"], []),
 ("revert-ddae116-string-eval-guard",    ("revert", "ddae116"), ["C12"], []),
 ("revert-3e98771-list-hash-order",      ("revert", "3e98771"), ["C03"], []),
 ("revert-f071c84-divert-cycle",         ("revert", "f071c84"), ["C18"], []),
 ("revert-180b321-cli-json-escape",      ("revert", "180b321"), ["C20"], []),
 ("revert-75f8203-stream-loader",        ("revert", "75f8203"), ["C15"], []),
 ("revert-cffc8c0-random-range-overflow", ("revert", "cffc8c0"), ["C04"], []),
 ("revert-e186a1a-skipped-temp-ref",     ("revert", "e186a1a"), ["C04"], []),
 ("revert-2cee00f-reset-revalidates",    ("revert", "2cee00f"), ["C04"], []),
 ("revert-488a3aa-messages-at-pause",    ("revert", "488a3aa"), ["C13"], ["C08"]),
 ("revert-3ab7dff-origins-order",        ("revert", "3ab7dff"), ["C03"], []),
 # found by the thorough tier only (1 case in 120 000 / 400 000): the quick tier finds their return through the
 # recorded cases (regress/), so these three run with the recorded cases enabled
 ("revert-8fa4474-literal-origins",      ("revert", "8fa4474"), ["C02"], [], {"pinned": True}),
 ("revert-db77fc3-empty-list-vs-default",("revert", "db77fc3"), ["C02"], [], {"pinned": True}),
 ("revert-82c8a10-choice-text",          ("revert", "82c8a10"), ["C04"], [], {"pinned": True}),
 ("revert-db4c970-negative-zero",        ("revert", "db4c970"), ["C02"], [], {"pinned": True}),
 ("revert-b0a1f02-operand-missing",      ("revert", "b0a1f02"), ["C04"], [], {"pinned": True}),
 # hand-written mutations (files under patches/)
]
for f in sorted(os.listdir(os.path.join(HERE, "patches"))):
    if f.endswith(".diff"):
        meta = json.load(open(os.path.join(HERE, "patches", f[:-5] + ".json")))
        ENTRIES.append((f[:-5], ("patch", os.path.join(HERE, "patches", f)), meta["must_fail"], meta.get("must_pass", [])))

def sh(cmd, **kw):
    return subprocess.run(cmd, shell=True, capture_output=True, text=True, **kw)

def clean_tree():
    return sh(f"git -C {REPO} status --porcelain --untracked-files=no").stdout.strip() == ""

def apply(how):
    kind, arg = how
    if kind == "revert":
        r = sh(f"git -C {REPO} show {arg} | git -C {REPO} apply -R --3way 2>&1 || git -C {REPO} show {arg} | git -C {REPO} apply -R")
    else:
        r = sh(f"git -C {REPO} apply {arg}")
    return r.returncode == 0, (r.stdout + r.stderr)[-400:]

def revert_all():
    sh(f"git -C {REPO} reset -q --hard HEAD")

def main():
    sel = sys.argv[1:]
    assert clean_tree(), "commit or stash changes in /repo first"
    results = []
    try:
        for name, how, must_fail, must_pass, *rest in ENTRIES:
            opts = rest[0] if rest else {}
            if sel and name not in sel:
                continue
            ok, msg = apply(how)
            if not ok:
                results.append({"name": name, "applied": False, "note": msg})
                print(f"{name}: could not apply: {msg}")
                revert_all()
                continue
            row = {"name": name, "applied": True, "checks": {}}
            for pid, expect in [(p, 1) for p in must_fail] + [(p, 0) for p in must_pass]:
                shutil.rmtree(OUT, ignore_errors=True)
                os.makedirs(OUT)
                t0 = time.time()
                # the sampler alone: recorded cases (regress/) are left out, or a reverted repair would be found trivially
                nop = "" if opts.get("pinned") else "VERIF_NO_PINNED=1 "
                r = sh(f"cd {VERIF} && {nop}VERIF_OUT={OUT} ./check {pid} --tier quick")
                viol = [l for l in r.stdout.splitlines() if l.startswith("VIOLATION")]
                classes = [l.strip() for l in r.stdout.splitlines() if l.startswith("  violation class=")][:3]
                replay_ok = None
                if viol:
                    path = viol[0].split("replay=")[1]
                    rr = sh(f"cd {VERIF} && VERIF_OUT={OUT} ./check {pid} --replay {path}")
                    replay_ok = rr.returncode == 1
                    if replay_ok and expect == 1 and os.environ.get("HARVEST"):
                        # keep the minimised schedules as recorded cases (one per reported violation, at most 3)
                        os.makedirs(f"{VERIF}/regress/{pid}", exist_ok=True)
                        for k, v in enumerate(viol[:3]):
                            shutil.copy(v.split("replay=")[1], f"{VERIF}/regress/{pid}/{name}-{k}.json")
                row["checks"][pid] = {"expected_exit": expect, "exit": r.returncode, "violations": len(viol), "first": classes, "replay_reproduces": replay_ok, "wall_s": round(time.time() - t0, 1), "recorded_cases": bool(opts.get("pinned"))}
                verdict = "OK" if r.returncode == expect and (expect == 0 or replay_ok) else "MISMATCH"
                print(f"{name}: {pid} exit={r.returncode} expected={expect} {verdict} {classes[:1]}")
            results.append(row)
            revert_all()
    finally:
        revert_all()
        shutil.rmtree(OUT, ignore_errors=True)
    # rebuild against the clean tree so that later runs do not use stale binaries
    sh(f"cd {VERIF} && ./setup.sh")
    old = []
    res_file = os.path.join(HERE, "results.json")
    if os.path.exists(res_file):
        old = [r for r in json.load(open(res_file)) if r["name"] not in {x["name"] for x in results}]
    json.dump(old + results, open(res_file, "w"), indent=1)

main()
