//! Cases, ops, programs, violations: everything a replay file contains.
use serde::{Deserialize, Serialize};
use serde_json::Value as J;

#[derive(Serialize, Deserialize, Clone, Debug, PartialEq)]
pub enum Val {
    Bool(bool),
    Int(i32),
    Float(f64),
    Str(String),
}

#[derive(Serialize, Deserialize, Clone, Debug, PartialEq)]
pub enum InvalidKind {
    ContinueWhenCant,
    ContinueAsyncWhenCant,
    ContinueMaxWhenCant, // legal: returns Ok("") - used as a no-op control
    ChooseOutOfRange(u32), // n + k
    ChooseHuge,
    SetUndeclared,
    ObserveUndeclared,
    EvalUnknown,
    EvalEmpty,
    EvalWhitespace,
    JumpUnknown { reset: bool },
    JumpHostile { reset: bool },
    /// valid path, no call-stack reset, with arguments, while the story is inside an ink function
    JumpInsideFunction,
    RemoveMissingFlow,
    RemoveDefaultFlow,
    RemoveUnregisteredObserver { specific: bool },
    BindTwice,
    UnbindUnbound,
    VisitCountBadPath,
    TagsBadPath,
}

#[derive(Serialize, Deserialize, Clone, Debug, PartialEq)]
pub enum Op {
    Continue,
    ContinueMax,
    /// `continue_async(limit)` calls until the line completes. `pauses[i]` is
    /// the clock-read index at which call i is paused (0 = run to completion).
    /// If `finish_plain` the last call is a plain `cont()`.
    /// `repeat_last`: once `pauses` is used up, every further call pauses at its last entry.
    ContinueSliced { pauses: Vec<u32>, finish_plain: bool, #[serde(default)] repeat_last: bool },
    Choose(u32),
    Save(u8),
    /// load a slot into the live instance
    Load(u8),
    /// drop the instance, build a new one, re-attach peers, load the slot
    CrashRestore(u8),
    SwitchFlow(String),
    SwitchDefault,
    RemoveFlow(String),
    Reset,
    Jump { path: String, reset: bool, args: Vec<Val> },
    Eval { name: String, args: Vec<Val> },
    SetVar { name: String, val: Val },
    /// copy the current value of global `from` into global `to` (any type)
    CopyVar { from: String, to: String },
    Observe { obs: u8, var: String },
    Unobserve { obs: u8, var: Option<String> },
    Bind { name: String, safe: bool },
    Unbind { name: String },
    /// set_allow_external_function_fallbacks
    SetFallbacks(bool),
    SetHandler,
    Invalid(InvalidKind),
}

impl Op {
    pub fn short(&self) -> String {
        match self {
            Op::Continue => "Continue".into(),
            Op::ContinueMax => "ContinueMax".into(),
            Op::ContinueSliced { pauses, finish_plain, repeat_last } => {
                format!("ContinueSliced{:?}{}{}", pauses, if *repeat_last { "*" } else { "" }, if *finish_plain { "+plain" } else { "" })
            }
            Op::Choose(k) => format!("Choose({k})"),
            Op::Save(s) => format!("Save({s})"),
            Op::Load(s) => format!("Load({s})"),
            Op::CrashRestore(s) => format!("CrashRestore({s})"),
            Op::SwitchFlow(n) => format!("SwitchFlow({n})"),
            Op::SwitchDefault => "SwitchDefault".into(),
            Op::RemoveFlow(n) => format!("RemoveFlow({n})"),
            Op::Reset => "Reset".into(),
            Op::Jump { path, reset, args } => format!("Jump({path},{reset},{args:?})"),
            Op::Eval { name, args } => format!("Eval({name},{args:?})"),
            Op::SetVar { name, val } => format!("SetVar({name},{val:?})"),
            Op::CopyVar { from, to } => format!("CopyVar({from}->{to})"),
            Op::Observe { obs, var } => format!("Observe({obs},{var})"),
            Op::Unobserve { obs, var } => format!("Unobserve({obs},{var:?})"),
            Op::Bind { name, safe } => format!("Bind({name},{safe})"),
            Op::Unbind { name } => format!("Unbind({name})"),
            Op::SetFallbacks(v) => format!("SetFallbacks({v})"),
            Op::SetHandler => "SetHandler".into(),
            Op::Invalid(k) => format!("Invalid({k:?})"),
        }
    }
}

#[derive(Serialize, Deserialize, Clone, Debug, Default)]
pub struct ProgInfo {
    pub globals: Vec<String>,
    /// paths of containers whose visits are counted
    pub counted: Vec<String>,
    /// top-level named containers except `global decl`
    pub knots: Vec<String>,
    /// `knot.stitch` level named containers
    pub stitches: Vec<String>,
    pub functions: Vec<String>,
    pub tunnels: Vec<String>,
    pub externals: Vec<(String, usize)>,
    pub lists: Vec<String>,
    pub ink_version: i64,
}

#[derive(Serialize, Deserialize, Clone, Debug)]
pub struct Program {
    pub kind: String,
    pub name: String,
    pub source: Option<String>,
    pub json: String,
    #[serde(skip)]
    pub info: ProgInfo,
}

impl Program {
    pub fn from_json(kind: &str, name: &str, source: Option<String>, json: String) -> Option<Program> {
        let info = analyze(&json)?;
        Some(Program { kind: kind.into(), name: name.into(), source, json, info })
    }
    pub fn reanalyze(&mut self) -> bool {
        match analyze(&self.json) {
            Some(i) => {
                self.info = i;
                true
            }
            None => false,
        }
    }
}

fn walk(arr: &[J], path: &str, info: &mut ProgInfo, depth: usize) {
    if arr.is_empty() || depth > 200 {
        return;
    }
    let (content, last) = arr.split_at(arr.len() - 1);
    let join = |p: &str, c: &str| if p.is_empty() { c.to_string() } else { format!("{p}.{c}") };
    if let Some(J::Object(m)) = last.first() {
        if let Some(f) = m.get("#f").and_then(|f| f.as_i64())
            && f & 1 != 0
            && !path.is_empty()
        {
            info.counted.push(path.to_string());
        }
        for (k, v) in m {
            if k == "#f" || k == "#n" {
                continue;
            }
            if let J::Array(a) = v {
                let p = join(path, k);
                if depth == 0 && k != "global decl" {
                    info.knots.push(k.clone());
                } else if depth == 1 {
                    info.stitches.push(p.clone());
                }
                walk(a, &p, info, depth + 1);
            }
        }
    }
    for (i, el) in content.iter().enumerate() {
        match el {
            J::Array(a) => {
                let name = a
                    .last()
                    .and_then(|l| l.as_object())
                    .and_then(|m| m.get("#n"))
                    .and_then(|n| n.as_str());
                let p = match name {
                    Some(n) => join(path, n),
                    None => join(path, &i.to_string()),
                };
                walk(a, &p, info, depth + 1);
            }
            J::Object(m) => {
                if let Some(J::String(n)) = m.get("f()")
                    && !info.functions.contains(n)
                {
                    info.functions.push(n.clone());
                }
                if let Some(J::String(n)) = m.get("->t->")
                    && !info.tunnels.contains(n)
                    && m.get("var").is_none()
                {
                    info.tunnels.push(n.clone());
                }
                if let Some(J::String(n)) = m.get("x()") {
                    let argc = m.get("exArgs").and_then(|a| a.as_u64()).unwrap_or(0) as usize;
                    if !info.externals.iter().any(|e| &e.0 == n) {
                        info.externals.push((n.clone(), argc));
                    }
                }
            }
            _ => {}
        }
    }
}

pub fn analyze(json: &str) -> Option<ProgInfo> {
    let v: J = serde_json::from_str(json).ok()?;
    let mut info = ProgInfo::default();
    info.ink_version = v.get("inkVersion").and_then(|x| x.as_i64()).unwrap_or(0);
    let root = v.get("root")?.as_array()?;
    walk(root, "", &mut info, 0);
    if let Some(J::Object(m)) = root.last()
        && let Some(J::Array(gd)) = m.get("global decl")
    {
        for el in gd {
            if let J::Object(o) = el
                && let Some(J::String(n)) = o.get("VAR=")
                && !info.globals.contains(n)
            {
                info.globals.push(n.clone());
            }
        }
    }
    if let Some(J::Object(ld)) = v.get("listDefs") {
        for k in ld.keys() {
            info.lists.push(k.clone());
        }
    }
    info.counted.sort();
    info.counted.dedup();
    Some(info)
}

#[derive(Serialize, Deserialize, Clone, Debug, Default)]
pub struct HostCfg {
    pub handler: bool,
    pub fallbacks: bool,
    /// (external name, look-ahead safe)
    pub bindings: Vec<(String, bool)>,
    /// (observer id, variable)
    pub observers: Vec<(u8, String)>,
    /// 0 = int token, 1 = string token, 2 = none
    pub ext_ret: u8,
}

#[derive(Serialize, Deserialize, Clone, Debug)]
pub struct Case {
    pub prop: String,
    pub run: u64,
    pub program: Program,
    pub host: HostCfg,
    pub ops: Vec<Op>,
    /// property-specific parameters (fault positions, second hash seed, ...)
    pub params: J,
    pub hash_seed: u64,
    pub story_seed: i32,
    pub fuel: u64,
}

#[derive(Serialize, Deserialize, Clone, Debug)]
pub struct Violation {
    pub property: String,
    pub class: String,
    pub site: String,
    pub detail: String,
    /// op index / fault position where it was introduced / seen (information)
    pub at: String,
    pub expected: String,
    pub actual: String,
}

impl Violation {
    pub fn new(property: &str, class: &str, site: &str, detail: &str) -> Violation {
        Violation {
            property: property.into(),
            class: class.into(),
            site: site.into(),
            detail: detail.into(),
            at: String::new(),
            expected: String::new(),
            actual: String::new(),
        }
    }
    pub fn with(mut self, at: String, expected: String, actual: String) -> Violation {
        self.at = at;
        self.expected = expected;
        self.actual = actual;
        self
    }
    /// class + site: what the shrinker keeps fixed and what a known finding names.
    pub fn signature(&self) -> String {
        format!("{}|{}|{}", self.property, self.class, self.site)
    }
}

#[derive(Serialize, Deserialize, Clone, Debug)]
pub struct ReplayFile {
    pub schema: u32,
    pub property: String,
    pub class: String,
    pub site: String,
    pub detail: String,
    pub digest: String,
    pub verif_seed: u64,
    pub build: String,
    pub violation: Violation,
    pub minimised: J,
    pub case: Case,
}
