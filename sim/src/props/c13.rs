//! C13 - every runtime error and warning is delivered exactly once.
use serde_json::{Value as J, json};

use super::*;
use crate::corpus::Corpus;
use crate::engine::{CaseResult, PropertyDef, Tier};
use crate::host::Ev;
use crate::rng::Rng;

pub static DEF: PropertyDef = PropertyDef {
    id: "C13",
    level: "exploration",
    rule: "generated programs with warning and error sites that execute at most once per play-through (read of a temp whose declaration was skipped, divert through a variable \
           holding an int, arithmetic on a void result, division/modulo by zero, tunnel without ->->, exhausted content), optionally re-stamped with an older inkVersion \
           (constructor-time warning) x seeded continue/choose histories with resets, in a third of the cases with lines finished by time-limited slices (virtual clock; pauses inside the look-ahead too). Two peers run the same history: one with an error handler, one without. Oracles over the \
           recorded delivery history: no message is delivered twice between resets; a message is delivered with the type its text states; the handler deliveries of a continue \
           equal the messages the no-handler twin newly exposes in that continue; without a handler a continue returns Err exactly when it raised an error and never for a \
           warning, errors stay readable until reset, warnings are readable after the continue that raised them; a delivered line that carries a warning site comes with its \
           warning; the warning of a statement without text is delivered by the time the story has passed it; after an error the story cannot continue until reset or until the host redirects it (to a knot of plain text, which must then play without any message being delivered); after reset no message is left. \
           Non-trivial = at least one warning or error was delivered; distinct = hash of program+history.",
    assumptions: &["sites are placed only in code that runs at most once between resets (knots reached by forward diverts), so a repeated message is a repeated delivery"],
    runs_quick: 10000,
    runs_thorough: 200000,
    exhaustive_note: "none (sampled programs and histories)",
    generate,
    execute,
    must_hit: &["fault.message.warning_delivered", "fault.message.error_delivered", "fault.message.version_warning", "fault.message.continue_after_warning", "fault.message.reset_after_error", "fault.slice.message_in_sliced_continue", "fault.message.silent_site_passed", "fault.message.redirect_after_error", "fault.message.error_in_host_evaluation", "fault.message.double_site_delivered"],
    timeout_s: 30,
    hang_class: None,
    sub_builds: &[],
    stack_mb: 64,
};

fn generate(_corpus: &Corpus, tier: Tier, run: u64, rng: &mut Rng) -> Option<Case> {
    let mut g = crate::inkgen::GenCfg::general();
    g.swarm(rng);
    g.message_sites = true;
    g.loops = false;
    g.random = false;
    // `TURNS_SINCE(-> k)` inside choice text is compiled as text plus a divert (compiler quirk), which re-runs
    // content; the at-most-once assumption about sites needs programs without it
    g.turns = false;
    g.externals = false;
    g.stmts = 3 + rng.below(5);
    g.knots = 2 + rng.below(3);
    let mut prog = crate::inkgen::generate(rng, &g)?;
    // a knot of plain text to redirect the story to (after an error, or at any other time): nothing in it
    // raises a message, so whatever is delivered while it plays is a re-delivery
    if let Some(src) = prog.source.clone() {
        // ... and a function for the host to evaluate whose own frame raises an error
        let ext = format!("VAR zz_zero = 0\n{src}\n=== zz_redirect ===\nredirected line one\nredirected line two\n-> END\n=== function zz_ferr() ===\n~ return 10 / zz_zero\n");
        if let Ok(json) = crate::corpus::compile_source(&ext, None)
            && let Some(p2) = Program::from_json("generated", &prog.name, Some(ext), json)
        {
            prog = p2;
        }
    }
    let restamp = rng.chance(1, 3);
    if restamp {
        prog.json = prog.json.replacen("\"inkVersion\":21", "\"inkVersion\":20", 1);
        prog.reanalyze();
    }
    let beats = match tier {
        Tier::Quick => 3 + rng.below(5),
        Tier::Thorough => 3 + rng.below(9),
    };
    let mut ops = Vec::new();
    let sliced = rng.chance(1, 3);
    for _ in 0..beats {
        let k = 1 + rng.below(5);
        for _ in 0..k {
            if sliced && rng.chance(1, 2) {
                // the handler peer finishes this line in time-limited slices (the pause can fall inside the
                // look-ahead after the newline); the no-handler twin uses a plain continue
                ops.push(Op::ContinueSliced { pauses: vec![1 + rng.below(6) as u32], finish_plain: rng.chance(1, 3), repeat_last: true });
            } else {
                ops.push(Op::Continue);
            }
        }
        ops.push(Op::Choose(rng.below(5) as u32));
        if rng.chance(1, 6) {
            ops.push(Op::Reset);
        } else if rng.chance(1, 8) {
            // the host evaluates a function that fails: the error is delivered once and stops the story like any other
            ops.push(Op::Eval { name: "zz_ferr".into(), args: vec![] });
            ops.push(Op::Continue);
        } else if rng.chance(1, 5) {
            // the host redirects the story (often right after an error stopped it)
            ops.push(Op::Jump { path: "zz_redirect".into(), reset: true, args: vec![] });
            ops.push(Op::Continue);
            ops.push(Op::Continue);
        }
    }
    // always end with: reset and play again (messages must not outlive a reset; sites fire again)
    ops.push(Op::Reset);
    for _ in 0..4 {
        ops.push(Op::Continue);
    }
    Some(Case {
        prop: "C13".into(),
        run,
        host: HostCfg { handler: true, fallbacks: true, bindings: vec![], observers: vec![], ext_ret: 0 },
        ops,
        params: json!({"restamped": restamp}),
        hash_seed: rng.next_u64(),
        story_seed: rng.below(100) as i32,
        fuel: 200_000,
        program: prog,
    })
}

fn new_items(before: &[String], after: &[String]) -> Vec<String> {
    if after.len() >= before.len() && after[..before.len()] == *before {
        after[before.len()..].to_vec()
    } else {
        after.to_vec()
    }
}

fn short(m: &str) -> String {
    m.chars().take(110).collect()
}

fn execute(case: &Case) -> CaseResult {
    let mut res = CaseResult::default();
    let prog = &case.program;
    res.fingerprint = crate::rng::fnv(&format!("{}|{:?}", prog.name, case.ops)) ^ crate::rng::fnv(&prog.json);
    let restamped = case.params.get("restamped").and_then(J::as_bool).unwrap_or(false);
    let cfg_h = HostCfg { handler: true, ..case.host.clone() };
    let cfg_n = HostCfg { handler: false, ..case.host.clone() };
    let (mut h, mut n) = match (Host::new(prog, &cfg_h), Host::new(prog, &cfg_n)) {
        (Ok(h), Ok(n)) => (h, n),
        _ => {
            res.discard = Some("construct".into());
            return res;
        }
    };
    macro_rules! fail {
        ($class:expr, $site:expr, $detail:expr, $at:expr, $exp:expr, $act:expr) => {
            res.fail(Violation::new("C13", $class, $site, $detail).with($at, $exp, $act))
        };
    }
    // constructor-time warning: readable without a handler right after construction
    if restamped {
        let w = n.observe().warnings;
        if !w.iter().any(|m| m.contains("Version of ink")) {
            fail!("message:lost", "version-mismatch warning", "not readable after construction", "Story::new".to_string(), "a version warning".to_string(), format!("{:?}", w));
        }
    }
    let mut delivered_in_epoch: Vec<String> = Vec::new();
    let mut silent_pending: Vec<String> = Vec::new();
    let mut redirected = 0u32;
    let mut in_sync = true;
    let mut h_errored = false;
    let mut version_deliveries = 0u32;
    let mut continues_in_epoch = 0u32;
    let mut warned_in_epoch = false;
    for (i, op) in case.ops.iter().enumerate() {
        let at = format!("op {i} {}", op.short());
        if matches!(op, Op::Reset) {
            let rh = h.apply(op);
            let rn = n.apply(op);
            if h.fuel_out || n.fuel_out {
                res.discard = Some("fuel".into());
                return res;
            }
            if !matches!(rh, Res::Ok(_)) || !matches!(rn, Res::Ok(_)) {
                if let Res::Panic(s, m) = &rh {
                    fail!("panic", s, &crate::host::norm_msg(m), at.clone(), "Ok".to_string(), rh.brief());
                }
                return res;
            }
            if h_errored {
                res.stats.inc("fault.message.reset_after_error");
            }
            let on = n.observe();
            let oh = h.observe();
            // nothing outlives a reset
            if !on.errors.is_empty() || !oh.errors.is_empty() {
                fail!("message:outlives-reset", "reset_state", "error still readable after reset", at.clone(), "[]".to_string(), format!("{:?}", on.errors));
            }
            let stale: Vec<&String> = on.warnings.iter().chain(oh.warnings.iter()).collect();
            if !stale.is_empty() {
                fail!("message:outlives-reset", "reset_state", "warning still readable after reset", at.clone(), "[]".to_string(), format!("{:?}", stale));
            }
            delivered_in_epoch.clear();
            silent_pending.clear();
            redirected = 0;
            in_sync = true;
            h_errored = false;
            continues_in_epoch = 0;
            warned_in_epoch = false;
            continue;
        }
        // --- handler peer
        let mark = h.log.borrow().len();
        let can_h = h.can_continue();
        let rh = h.apply(op);
        if matches!(op, Op::Eval { .. }) {
            // the no-handler twin would keep the error as unhandled: not comparable from here
            in_sync = false;
            if h.log.borrow()[mark..].iter().any(|e| matches!(e, Ev::Handler { warning: false, .. })) {
                res.stats.inc("fault.message.error_in_host_evaluation");
            }
        }
        if let Op::Jump { path, .. } = op
            && path == "zz_redirect"
        {
            // from here the two peers are no longer comparable (the twin may hold an unhandled error),
            // and sites the story was heading for are never reached
            in_sync = false;
            silent_pending.clear();
            if matches!(rh, Res::Ok(_)) {
                redirected = 2;
                if h_errored {
                    res.stats.inc("fault.message.redirect_after_error");
                }
                h_errored = false;
            }
            continue;
        }
        if redirected > 0 && matches!(op, Op::Continue | Op::ContinueSliced { .. }) {
            redirected -= 1;
            // (the constructor-time version warning is handed over by the first continue, whenever that is)
            let all: Vec<String> = h.log.borrow()[mark..].iter().filter_map(|e| match e { Ev::Handler { msg, .. } => Some(short(msg)), _ => None }).collect();
            version_deliveries += all.iter().filter(|m| m.contains("Version of ink")).count() as u32;
            if version_deliveries > 1 {
                fail!("message:duplicate", "version-mismatch warning", "delivered more than once", at.clone(), "once".to_string(), "again after a redirect".to_string());
            }
            let msgs: Vec<String> = all.into_iter().filter(|m| !m.contains("Version of ink")).collect();
            let line = h.log.borrow()[mark..].iter().find_map(|e| match e { Ev::Line { text, .. } => Some(text.clone()), _ => None }).unwrap_or_default();
            if !matches!(rh, Res::Ok(_)) || !line.starts_with("redirected line") {
                fail!("message:stuck-after-redirect", "choose_path_string", "the redirected story does not play the lines it was sent to", at.clone(), "redirected line ...".to_string(), format!("{} {:?}", rh.brief(), line));
                redirected = 0;
            } else if !msgs.is_empty() {
                fail!("message:duplicate", "redirect", "a message was delivered while plain text played after a redirect: an earlier message again", at.clone(), "no message".to_string(), format!("{:?}", msgs));
            }
            continue;
        }
        if h.fuel_out {
            res.discard = Some("fuel".into());
            return res;
        }
        if let Res::Panic(s, m) = &rh {
            fail!("panic", s, &crate::host::norm_msg(m), at.clone(), "Ok/Err".to_string(), rh.brief());
            return res;
        }
        let evs: Vec<Ev> = h.log.borrow()[mark..].to_vec();
        let mut h_msgs: Vec<(bool, String)> = Vec::new();
        let mut line_text = String::new();
        for e in &evs {
            match e {
                Ev::Handler { warning, msg } => h_msgs.push((*warning, msg.clone())),
                Ev::Line { text, .. } => line_text = text.clone(),
                _ => {}
            }
        }
        if matches!(op, Op::Continue | Op::ContinueSliced { .. }) && can_h {
            if matches!(op, Op::ContinueSliced { .. }) {
                res.stats.inc("fault.slice.continue_sliced");
                if evs.iter().any(|e| matches!(e, Ev::Handler { .. })) {
                    res.stats.inc("fault.slice.message_in_sliced_continue");
                }
            }
            continues_in_epoch += 1;
            if warned_in_epoch {
                res.stats.inc("fault.message.continue_after_warning");
            }
        }
        for (w, m) in &h_msgs {
            res.nontrivial = true;
            if *w {
                res.stats.inc("fault.message.warning_delivered");
                warned_in_epoch = true;
            } else {
                res.stats.inc("fault.message.error_delivered");
            }
            // type as the text states
            let says_warning = m.contains("WARNING");
            let says_error = m.contains("RUNTIME ERROR") || m.starts_with("ERROR");
            if (*w && says_error && !says_warning) || (!*w && says_warning && !says_error) {
                fail!("message:wrong-type", "ErrorHandler::error", "type differs from the message text", at.clone(), short(m), format!("delivered as {}", if *w { "Warning" } else { "Error" }));
            }
            if m.contains("Version of ink") {
                version_deliveries += 1;
                res.stats.inc("fault.message.version_warning");
                if version_deliveries > 1 || continues_in_epoch > 1 && delivered_in_epoch.is_empty() && false {
                    fail!("message:duplicate", "version-mismatch warning", "delivered more than once", at.clone(), "once".to_string(), short(m));
                }
                continue;
            }
            if m.contains("'ud_") {
                // a double site raises the same warning twice in one line: counted below, not a re-delivery
                continue;
            }
            if matches!(op, Op::Eval { .. }) {
                // the host may evaluate the failing function as often as it likes: each evaluation raises its
                // messages anew; within one evaluation none may come twice
                if h_msgs.iter().filter(|x| x.1 == *m).count() > 1 {
                    fail!("message:duplicate", if *w { "warning" } else { "error" }, "delivered twice by one host evaluation", at.clone(), "delivered once".to_string(), short(m));
                }
            } else if delivered_in_epoch.contains(m) {
                fail!("message:duplicate", if *w { "warning" } else { "error" }, "delivered again by a later continue", at.clone(), "delivered once".to_string(), short(m));
            } else {
                delivered_in_epoch.push(m.clone());
            }
        }
        let h_has_error = h_msgs.iter().any(|(w, _)| !*w);
        if h_has_error {
            h_errored = true;
            // with a handler the errors are handed over and the continue itself succeeds or fails,
            // but the story must have stopped
            if h.can_continue() {
                fail!("message:continues-after-error", "continue", "story can continue after a delivered error", at.clone(), "can_continue == false".to_string(), "true".to_string());
            }
        }
        // a delivered line that carries a warning site comes with its warning
        if let Some(pos) = line_text.find(" wsite w") {
            let id: String = line_text[pos + 8..].chars().take_while(|c| c.is_ascii_digit()).collect();
            let needle = format!("'u_{id}'");
            if !h_msgs.iter().any(|(w, m)| *w && m.contains(&needle)) {
                fail!("message:lost", "warning", "line with a warning site delivered without its warning", at.clone(), format!("a warning naming {needle}"), format!("{:?}", h_msgs.iter().map(|x| short(&x.1)).collect::<Vec<_>>()));
            }
        }

        // a double site: the line `dsite dN` calls twice a function that warns; both warnings arrive with the line
        if let Some(pos) = line_text.find(" dsite d") {
            let id: String = line_text[pos + 8..].chars().take_while(|c| c.is_ascii_digit()).collect();
            let needle = format!("'ud_{id}'");
            let n = h_msgs.iter().filter(|(w, m)| *w && m.contains(&needle)).count();
            res.stats.inc("fault.message.double_site_delivered");
            if n != 2 {
                fail!("message:lost", "warning", "a line that raises the same warning twice delivered it another number of times", at.clone(), format!("2 warnings naming {needle}"), format!("{n}"));
            }
        }
        // a silent warning site (a statement without text after the line `pre-silent wsN`) has run once its
        // `post-silent wsN` line is delivered or the story has stopped at choices or its end: by then its
        // warning must have been delivered
        if let Some(pos) = line_text.find("pre-silent ws") {
            let id: String = line_text[pos + 13..].chars().take_while(|c| c.is_ascii_digit()).collect();
            if !id.is_empty() && !silent_pending.contains(&id) {
                silent_pending.push(id);
            }
        }
        if !h_errored && !silent_pending.is_empty() {
            let stopped = !h.can_continue();
            let mut still = Vec::new();
            for id in silent_pending.drain(..) {
                let passed = stopped || line_text.contains(&format!("post-silent ws{id}"));
                if !passed {
                    still.push(id);
                    continue;
                }
                res.stats.inc("fault.message.silent_site_passed");
                let needle = format!("'us_{id}'");
                if !delivered_in_epoch.iter().any(|m| m.contains(&needle)) {
                    fail!("message:lost", "warning", "a statement without text raised a warning after a line end; it was never delivered", at.clone(), format!("a warning naming {needle}"), format!("{:?}", delivered_in_epoch.iter().map(|x| short(x)).collect::<Vec<_>>()));
                }
            }
            silent_pending = still;
        }

        // --- no-handler twin
        if !in_sync {
            continue;
        }
        let before = n.observe();
        let plain = Op::Continue;
        let rn = n.apply(if matches!(op, Op::ContinueSliced { .. }) { &plain } else { op });
        if n.fuel_out {
            res.discard = Some("fuel".into());
            return res;
        }
        if let Res::Panic(s, m) = &rn {
            fail!("panic", s, &crate::host::norm_msg(m), format!("{at} (no handler)"), "Ok/Err".to_string(), rn.brief());
            return res;
        }
        let after = n.observe();
        let new_err = new_items(&before.errors, &after.errors);
        let new_warn = new_items(&before.warnings, &after.warnings);
        if matches!(rn, Res::Noop) && matches!(rh, Res::Noop) {
            continue;
        }
        // Err exactly when an error was raised; never for a warning alone
        match &rn {
            Res::Err(_, m) if m.contains("Ink had") || m.contains("RUNTIME") => {
                if new_err.is_empty() && before.errors.is_empty() {
                    fail!("message:err-on-warning", "continue", "continue failed although no error was raised", format!("{at} (no handler)"), "Ok".to_string(), rn.brief());
                }
                if after.errors.is_empty() {
                    fail!("message:lost", "error", "error not readable after the failed continue", format!("{at} (no handler)"), "get_current_errors() non-empty".to_string(), "[]".to_string());
                }
            }
            Res::Ok(_) => {
                if !new_err.is_empty() {
                    fail!("message:lost", "error", "an error was raised but the continue returned Ok", format!("{at} (no handler)"), "Err".to_string(), format!("{:?}", new_err.iter().map(|m| short(m)).collect::<Vec<_>>()));
                }
            }
            _ => {}
        }
        // earlier errors stay readable until reset
        if !before.errors.is_empty() && !after.errors.iter().any(|e| before.errors.contains(e)) {
            fail!("message:lost", "error", "an unhandled error disappeared without a reset", format!("{at} (no handler)"), format!("{:?}", before.errors), format!("{:?}", after.errors));
        }
        // handler deliveries of this continue == messages newly exposed by the twin
        let mut hw: Vec<String> = h_msgs.iter().filter(|(w, m)| *w && !m.contains("Version of ink")).map(|x| x.1.clone()).collect();
        let mut he: Vec<String> = h_msgs.iter().filter(|(w, _)| !*w).map(|x| x.1.clone()).collect();
        let mut nw: Vec<String> = new_warn.iter().filter(|m| !m.contains("Version of ink")).cloned().collect();
        let mut ne = new_err.clone();
        hw.sort();
        he.sort();
        nw.sort();
        ne.sort();
        // with stale warnings re-exposed the twin's "new" list can only be longer; compare as sets of fresh messages
        if he != ne {
            fail!("message:twin-mismatch", "error", "handler deliveries differ from the errors the no-handler twin raised", at.clone(), format!("{:?}", ne.iter().map(|m| short(m)).collect::<Vec<_>>()), format!("{:?}", he.iter().map(|m| short(m)).collect::<Vec<_>>()));
            in_sync = false;
        } else if hw != nw {
            fail!("message:twin-mismatch", "warning", "handler deliveries differ from the warnings the no-handler twin raised", at.clone(), format!("{:?}", nw.iter().map(|m| short(m)).collect::<Vec<_>>()), format!("{:?}", hw.iter().map(|m| short(m)).collect::<Vec<_>>()));
            in_sync = false;
        }
        if !new_warn.is_empty() && !after.warnings.iter().any(|w| new_warn.contains(w)) {
            fail!("message:lost", "warning", "warning not readable after the continue that raised it", format!("{at} (no handler)"), format!("{:?}", new_warn), format!("{:?}", after.warnings));
        }
        // the twins must tell the same story as long as no error split them
        if rh.class_kind() != rn.class_kind() && !h_has_error && new_err.is_empty() {
            in_sync = false;
        }
        if h_has_error || !new_err.is_empty() {
            // both stopped; nothing more to compare until the next reset
            in_sync = in_sync && h_has_error == !new_err.is_empty();
        }
    }
    if restamped && version_deliveries == 0 && case.ops.iter().any(|o| matches!(o, Op::Continue | Op::ContinueSliced { .. })) && res.violations.is_empty() {
        // the first continue must have delivered it (if any continue ran at all)
        let ran = h.log.borrow().iter().any(|e| matches!(e, Ev::Line { .. }) || matches!(e, Ev::Handler { .. }));
        if ran {
            fail!("message:lost", "version-mismatch warning", "never delivered to the handler", "whole history".to_string(), "one delivery".to_string(), "none".to_string());
        }
    }
    res
}
