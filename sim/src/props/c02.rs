//! C02 - saving and loading preserves all future behaviour.
//!
//! Simulated: the host's disk and process crash. For EVERY save point of a
//! sampled history the instance is "crashed" (dropped), a new one is built
//! from the program, the peers are re-attached, the save is loaded, and the
//! restored instance must stay in lockstep with the uninterrupted one.
use serde_json::{Value as J, json};

use super::*;
use crate::corpus::Corpus;
use crate::engine::{CaseResult, PropertyDef, Tier};
use crate::host::Ev;
use crate::rng::Rng;
use crate::script::{ScriptCfg, gen_script, gen_tail};

pub static DEF: PropertyDef = PropertyDef {
    id: "C02",
    level: "fault_enumeration",
    rule: "program (corpus of both compilers + generator weighted to tunnels, multi-line functions, threads, fallback choices, flows, lists, RANDOM/shuffles) x \
           seeded host history; a crash-restore (save, drop instance, construct, re-attach peers, load) is injected at EVERY distinct save point of the history and the \
           restored instance is compared in lockstep with the uninterrupted one over the rest of the history plus a seeded continuation (text, tags, choices, \
           can_continue, path, variables, visit counts, turn index, seed, previous random, flows, observer/external peer events); the save of the restored \
           instance is loaded into a third instance which must be in lockstep too; a second crash is injected later in the suffix. \
           Non-trivial = the saved state was not the initial state and at least one post-restore step (non-noop) was compared; distinct = hash of program+history.",
    assumptions: &[
        "current errors/warnings are not compared (the save format does not carry them and C02 does not list them; C13 owns them); no crash is injected while an unhandled error is outstanding (not a save point)",
        "saves are compared behaviourally, never textually",
    ],
    runs_quick: 8000,
    runs_thorough: 120000,
    exhaustive_note: "crash-restore injected at every distinct save point of each sampled history",
    generate,
    execute,
    must_hit: &[
        "fault.crash_restore.fired_nontrivial",
        "save.callstack_depth_gt1",
        "save.choice_threads",
        "save.nested_threads_with_choice_threads",
        "save.multi_flow",
        "probe.snapshot_restored",
    ],
    timeout_s: 30,
    hang_class: None,
    sub_builds: &[],
    stack_mb: 64,
};

pub fn c02_profile() -> GenProfile {
    let mut p = GenProfile::general();
    p.gcfg.shuffles = true;
    p.gcfg.random = true;
    p.gcfg.externals = true;
    p
}

fn generate(corpus: &Corpus, tier: Tier, run: u64, rng: &mut Rng) -> Option<Case> {
    let prog = pick_program(corpus, rng, &c02_profile())?;
    let beats = match tier {
        Tier::Quick => 2 + rng.below(4),
        Tier::Thorough => 2 + rng.below(8),
    };
    let cfg = ScriptCfg {
        beats,
        flows: rng.chance(1, 3),
        jumps: rng.chance(1, 4),
        evals: rng.chance(1, 4),
        setvars: rng.chance(1, 3),
        observers: rng.chance(1, 3),
        saves: false,
        resets: rng.chance(1, 8),
        continue_max: rng.chance(1, 3),
        jump_functions: false,
        eval_any_knot: false,
    };
    let ops = gen_script(rng, &prog, &cfg);
    let tail = gen_tail(rng, if tier == Tier::Quick { 3 } else { 6 });
    let host = default_host(&prog, rng);
    Some(Case {
        prop: "C02".into(),
        run,
        host,
        ops,
        params: json!({"tail": tail}),
        hash_seed: rng.next_u64(),
        story_seed: rng.below(100) as i32,
        fuel: 600_000,
        program: prog,
    })
}

fn skip_c02(f: &str) -> bool {
    f == "errors" || f == "warnings"
}

fn peer_events_c02(h: &Host, from: usize) -> Vec<String> {
    let log = h.log.borrow();
    let mut out: Vec<String> = Vec::new();
    let mut run: Vec<String> = Vec::new();
    for e in log.iter().skip(from) {
        match e {
            // whether re-assigning an equal value notifies depends on object identity, which a
            // restore legitimately changes; observer notifications are C11's subject
            Ev::Observer { .. } => {}
            Ev::External { name, args, ret, .. } => {
                run.sort();
                out.append(&mut run);
                out.push(format!("external {name}({}) -> {ret}", args.join(",")));
            }
            Ev::Line { .. } => {
                run.sort();
                out.append(&mut run);
                out.push(e.render());
            }
            _ => {}
        }
    }
    run.sort();
    out.append(&mut run);
    out
}

pub fn save_shape(stats: &mut crate::engine::Stats, save: &str) {
    let j: J = serde_json::from_str(save).unwrap_or(J::Null);
    if let Some(flows) = j.get("flows").and_then(|f| f.as_object()) {
        if flows.len() >= 2 {
            stats.inc("save.multi_flow");
        }
        for (_, f) in flows {
            if f.get("choiceThreads").is_some() {
                stats.inc("save.choice_threads");
            }
            if let Some(threads) = f.get("callstack").and_then(|c| c.get("threads")).and_then(|t| t.as_array()) {
                if threads.len() > 1 {
                    stats.inc("save.threads_gt1");
                }
                // threads nested (at least three live) while a choice of a thread that has finished is pending
                if threads.len() >= 3 && f.get("choiceThreads").is_some() {
                    stats.inc("save.nested_threads_with_choice_threads");
                }
                for t in threads {
                    let d = t.get("callstack").and_then(|c| c.as_array()).map(|a| a.len()).unwrap_or(0);
                    if d > 1 {
                        stats.inc("save.callstack_depth_gt1");
                    }
                    if let Some(cs) = t.get("callstack").and_then(|c| c.as_array()) {
                        for el in cs {
                            if el.get("temp").and_then(|t| t.as_object()).map(|m| !m.is_empty()).unwrap_or(false) {
                                stats.inc("save.temps");
                            }
                        }
                    }
                }
            }
            if f.get("currentChoices").and_then(|c| c.as_array()).map(|a| !a.is_empty()).unwrap_or(false) {
                stats.inc("save.pending_choices");
            }
            if f.get("outputStream").and_then(|c| c.as_array()).map(|a| !a.is_empty()).unwrap_or(false) {
                stats.inc("save.pending_output");
            }
        }
    }
    if j.get("evalStack").and_then(|c| c.as_array()).map(|a| !a.is_empty()).unwrap_or(false) {
        stats.inc("save.eval_stack_nonempty");
    }
    if j.get("currentDivertTarget").is_some() {
        stats.inc("save.divert_target");
    }
}

struct Point {
    save: String,
    obs: Obs,
    regs: Vec<(u8, String)>,
    binds: Vec<(String, bool)>,
    handler: bool,
    log_mark: usize,
}

fn execute(case: &Case) -> CaseResult {
    let mut res = CaseResult::default();
    let tail: Vec<Op> = serde_json::from_value(case.params["tail"].clone()).unwrap_or_default();
    let only_pos = case.params.get("only_pos").and_then(|p| p.as_u64()).map(|p| p as usize);
    let prog = &case.program;
    let mut ops: Vec<Op> = case.ops.clone();
    let hist_len = ops.len();
    ops.extend(tail.iter().cloned());
    res.fingerprint = crate::rng::fnv(&format!("{}|{:?}", prog.name, case.ops)) ^ crate::rng::fnv(&prog.json);

    // ---- reference run A0 (no saves) and A1 (save at every point): saving must not perturb
    let mut a0 = match Host::new(prog, &case.host) {
        Ok(h) => h,
        Err(r) => {
            res.discard = Some(format!("construct-{}", r.class().split(' ').next().unwrap_or("")));
            return res;
        }
    };
    let mut a = match Host::new(prog, &case.host) {
        Ok(h) => h,
        Err(_) => return res,
    };
    let initial = a.observe();
    let mut points: Vec<Option<Point>> = Vec::new();
    let mut obs_after: Vec<Obs> = Vec::new();
    let mut res_after: Vec<Res> = Vec::new();
    let mut last: Option<Obs> = None;
    for i in 0..=ops.len() {
        // save point before op i
        let o = a.observe();
        if i <= hist_len && last.as_ref() != Some(&o) && o.errors.is_empty() {
            match a.save_text() {
                Ok(s) => {
                    points.push(Some(Point {
                        save: s,
                        obs: o.clone(),
                        regs: a.regs.clone(),
                        binds: a.binds.clone(),
                        handler: a.handler,
                        log_mark: a.log.borrow().len(),
                    }));
                }
                Err(Res::Panic(s, m)) => {
                    res.fail(Violation::new("C02", "panic", &s, &crate::host::norm_msg(&m)).with(format!("save_state at point {i}"), "Ok".into(), "panic".into()));
                    return res;
                }
                Err(_) => points.push(None),
            }
        } else {
            points.push(None);
        }
        last = Some(o);
        if i == ops.len() {
            break;
        }
        let r0 = a0.apply(&ops[i]);
        let r = a.apply(&ops[i]);
        if a.fuel_out || a0.fuel_out {
            res.discard = Some("fuel".into());
            return res;
        }
        if r.is_panic() || r0.is_panic() {
            // a panic during ordinary play is C04's subject; stop the history here
            res.stats.inc("reference_panicked");
            ops.truncate(i);
            break;
        }
        if r.class() != r0.class() {
            res.fail(Violation::new("C02", "save-perturbs", "save_state", "result").with(format!("op {i} {}", ops[i].short()), r0.brief(), r.brief()));
            return res;
        }
        let oa = a.observe();
        let o0 = a0.observe();
        if let Some((f, e, ac)) = o0.first_diff(&oa, &no_skip) {
            res.fail(Violation::new("C02", "save-perturbs", "save_state", &f).with(format!("after op {i} {}", ops[i].short()), e, ac));
            return res;
        }
        obs_after.push(oa);
        res_after.push(r);
    }
    let n_ops = obs_after.len();

    // ---- crash-restore at every distinct save point
    for (p, pt) in points.iter().enumerate() {
        let pt = match pt {
            Some(p) => p,
            None => continue,
        };
        if p > n_ops {
            break;
        }
        if let Some(op) = only_pos
            && op != p
        {
            continue;
        }
        res.stats.inc("fault.crash_restore.planned");
        save_shape(&mut res.stats, &pt.save);
        let nontrivial_state = pt.obs != initial;
        // chain: B loads A's save; C loads B's re-save
        let mut save_text = pt.save.clone();
        for generation in 0..2 {
            let cfg = HostCfg {
                handler: pt.handler,
                fallbacks: case.host.fallbacks,
                bindings: pt.binds.clone(),
                observers: pt.regs.clone(),
                ext_ret: case.host.ext_ret,
            };
            let mut b = match Host::new(prog, &cfg) {
                Ok(b) => b,
                Err(_) => break,
            };
            let site = if generation == 0 { "load_state" } else { "save_state(restored)+load_state" };
            match b.load_text(&save_text) {
                Res::Ok(_) => {}
                Res::Fuel => {
                    res.discard = Some("fuel".into());
                    return res;
                }
                Res::Panic(s, m) => {
                    res.fail(Violation::new("C02", "panic", &s, &crate::host::norm_msg(&m)).with(format!("restore at point {p} gen {generation}"), "Ok".into(), "panic".into()));
                    break;
                }
                other => {
                    res.fail(Violation::new("C02", "restore-failed", site, &other.brief().chars().take(80).collect::<String>()).with(
                        format!("restore at point {p}"),
                        "Ok".into(),
                        other.brief(),
                    ));
                    break;
                }
            }
            b.lines.set(0);
            let mut diverged = false;
            let ob = b.observe();
            if let Some((f, e, ac)) = pt.obs.first_diff(&ob, &skip_c02) {
                res.fail(
                    Violation::new("C02", &format!("restore-divergence:{}", super::c17::field_class(&f)), site, &f)
                        .with(format!("immediately after restore at point {p} (gen {generation})"), e, ac),
                );
                diverged = true;
            }
            let mut compared = 0u64;
            let mut second_crash_done = false;
            if !diverged {
                for i in p..n_ops {
                    // a second crash in the middle of the suffix
                    if generation == 0 && !second_crash_done && i >= p + 2 && obs_after[i - 1].errors.is_empty() {
                        second_crash_done = true;
                        let r1 = b.apply(&Op::Save(9));
                        let r2 = b.apply(&Op::CrashRestore(9));
                        if let Res::Panic(s, m) = &r2 {
                            res.fail(Violation::new("C02", "panic", s, &crate::host::norm_msg(m)).with(format!("second crash before op {i}"), "Ok".into(), r2.brief()));
                            diverged = true;
                            break;
                        }
                        if !matches!(r1, Res::Ok(_)) || !matches!(r2, Res::Ok(_)) {
                            break;
                        }
                        res.stats.inc("fault.second_crash.fired");
                    }
                    let rb = b.apply(&ops[i]);
                    if b.fuel_out {
                        res.discard = Some("fuel".into());
                        return res;
                    }
                    if rb.class_kind() != res_after[i].class_kind() {
                        res.fail(Violation::new("C02", "restore-divergence:result", site, "result").with(
                            format!("restore at point {p} (gen {generation}), then op {i} {}", ops[i].short()),
                            res_after[i].brief(),
                            rb.brief(),
                        ));
                        diverged = true;
                        break;
                    }
                    if !matches!(rb, Res::Noop) {
                        compared += 1;
                    }
                    let ob = b.observe();
                    if let Some((f, e, ac)) = obs_after[i].first_diff(&ob, &skip_c02) {
                        if std::env::var("VERIF_TRACE").is_ok() {
                            eprintln!("--- A log\n{}\n--- B log\n{}\n--- A obs {:?}\n--- B obs {:?}", a.log_render().join("\n"), b.log_render().join("\n"), obs_after[i], ob);
                        }
                        res.fail(
                            Violation::new("C02", &format!("restore-divergence:{}", super::c17::field_class(&f)), site, &f).with(
                                format!("restore at point {p} (gen {generation}), then op {i} {}", ops[i].short()),
                                e,
                                ac,
                            ),
                        );
                        diverged = true;
                        break;
                    }
                }
            }
            if !diverged {
                // peer events of the suffix
                let ea = peer_events_c02(&a, pt.log_mark);
                let eb = peer_events_c02(&b, 0);
                if ea != eb {
                    if std::env::var("VERIF_TRACE").is_ok() {
                        eprintln!("--- A log\n{}\n--- B log\n{}", a.log_render().join("\n"), b.log_render().join("\n"));
                    }
                    let i = ea.iter().zip(eb.iter()).position(|(x, y)| x != y).unwrap_or(ea.len().min(eb.len()));
                    res.fail(Violation::new("C02", "restore-divergence:peers", site, "peer event log").with(
                        format!("restore at point {p} (gen {generation})"),
                        ea.get(i).cloned().unwrap_or_else(|| "<end>".into()),
                        eb.get(i).cloned().unwrap_or_else(|| "<end>".into()),
                    ));
                    diverged = true;
                }
            }
            if diverged {
                break;
            }
            if nontrivial_state && compared > 0 {
                res.stats.inc("fault.crash_restore.fired_nontrivial");
                res.nontrivial = true;
                res.stats.mark("distinct_states", pt.obs.digest());
            }
            // next generation: re-save of a freshly restored instance (taken right after load)
            if generation == 0 {
                let mut b2 = match Host::new(prog, &cfg) {
                    Ok(b) => b,
                    Err(_) => break,
                };
                if !matches!(b2.load_text(&pt.save), Res::Ok(_)) {
                    break;
                }
                match b2.save_text() {
                    Ok(s) => {
                        save_text = s;
                        res.stats.inc("fault.resave.planned");
                    }
                    Err(_) => break,
                }
            }
        }
    }
    res
}
