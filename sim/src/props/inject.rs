//! Shared machinery for "inject a host call at every boundary of a history
//! and compare, in lockstep, with the same history without it" (C09, C16).
use super::*;
use crate::engine::CaseResult;
use crate::host::Ev;

pub struct Reference {
    pub ops: Vec<Op>,
    pub initial: Obs,
    pub obs_after: Vec<Obs>,
    pub res_after: Vec<Res>,
    /// log length before op i (index ops.len() = end)
    pub log_marks: Vec<usize>,
    pub peer_log: Vec<Ev>,
    /// boundaries (0..=n) whose state differs from the previous boundary
    pub distinct: Vec<usize>,
}

pub enum RefErr {
    Construct(Res),
    Fuel,
}

/// Run the uninjected history once and record everything.
pub fn reference(case: &Case, ops: &[Op]) -> Result<Reference, RefErr> {
    let mut a = Host::new(&case.program, &case.host).map_err(RefErr::Construct)?;
    let initial = a.observe();
    let mut r = Reference {
        ops: Vec::new(),
        initial: initial.clone(),
        obs_after: vec![],
        res_after: vec![],
        log_marks: vec![],
        peer_log: vec![],
        distinct: vec![0],
    };
    let mut last = initial;
    for op in ops {
        r.log_marks.push(a.log.borrow().len());
        let res = a.apply(op);
        if a.fuel_out {
            return Err(RefErr::Fuel);
        }
        if res.is_panic() {
            // ordinary play panicked (C04's subject): the history ends here
            break;
        }
        let o = a.observe();
        r.ops.push(op.clone());
        if o != last {
            r.distinct.push(r.ops.len());
        }
        last = o.clone();
        r.obs_after.push(o);
        r.res_after.push(res);
    }
    r.log_marks.push(a.log.borrow().len());
    r.peer_log = a.log.borrow().clone();
    Ok(r)
}

pub fn peer_strings(log: &[Ev], from: usize) -> Vec<String> {
    let mut out: Vec<String> = Vec::new();
    let mut run: Vec<String> = Vec::new();
    for e in log.iter().skip(from) {
        match e {
            Ev::Observer { .. } => run.push(e.render()),
            Ev::Op { .. } | Ev::Note(_) | Ev::PausedCall { .. } => {}
            Ev::External { name, args, ret, .. } => {
                run.sort();
                out.append(&mut run);
                out.push(format!("external {name}({}) -> {ret}", args.join(",")));
            }
            other => {
                run.sort();
                out.append(&mut run);
                out.push(other.render());
            }
        }
    }
    run.sort();
    out.append(&mut run);
    out
}

pub struct Injection<'a> {
    pub prop: &'a str,
    /// ops injected (in this order) at the boundary
    pub faults: &'a [Op],
    /// what a correct library answers to each injected op
    pub expect_err: bool,
    pub skip: &'a dyn Fn(&str) -> bool,
    pub class_prefix: &'a str,
    /// Ok and Err are both acceptable answers (only panics and state changes are not)
    pub either_result: bool,
}

pub struct InjOutcome {
    pub violation: Option<Violation>,
    /// how many injected ops were answered as expected
    pub fired: u64,
    pub compared: u64,
    pub fuel: bool,
    /// results of the injected ops
    pub results: Vec<Res>,
}

/// Replay the prefix, inject, compare with the reference over the suffix.
pub fn inject_at(case: &Case, r: &Reference, p: usize, inj: &Injection) -> InjOutcome {
    let mut out = InjOutcome { violation: None, fired: 0, compared: 0, fuel: false, results: vec![] };
    let mut b = match Host::new(&case.program, &case.host) {
        Ok(b) => b,
        Err(_) => return out,
    };
    for op in &r.ops[..p] {
        b.apply(op);
        if b.fuel_out {
            out.fuel = true;
            return out;
        }
    }
    let expect_now = if p == 0 { r.initial.clone() } else { r.obs_after[p - 1].clone() };
    let mark = b.log.borrow().len();
    let mut injected_marks: Vec<(usize, usize)> = Vec::new();
    for f in inj.faults {
        let m0 = b.log.borrow().len();
        let res = b.apply(f);
        let m1 = b.log.borrow().len();
        injected_marks.push((m0, m1));
        out.results.push(res.clone());
        if b.fuel_out {
            out.fuel = true;
            return out;
        }
        match &res {
            Res::Noop => continue,
            Res::Panic(s, m) => {
                out.violation = Some(
                    Violation::new(inj.prop, "panic", s, &crate::host::norm_msg(m)).with(format!("{} injected at boundary {p}", f.short()), "Err".into(), res.brief()),
                );
                return out;
            }
            Res::Ok(_) if inj.expect_err && !inj.either_result => {
                out.violation = Some(
                    Violation::new(inj.prop, &format!("accepted-invalid:{}", kind_name(f)), &kind_name(f), "invalid call returned Ok")
                        .with(format!("{} injected at boundary {p}", f.short()), "Err".into(), res.brief()),
                );
                return out;
            }
            Res::Err(..) if !inj.expect_err && !inj.either_result => {
                // a valid injected call failed: not comparable, not a violation of transparency by itself
                return out;
            }
            _ => {}
        }
        out.fired += 1;
        let ob = b.observe();
        if let Some((field, e, ac)) = expect_now.first_diff(&ob, inj.skip) {
            out.violation = Some(
                Violation::new(inj.prop, &format!("{}:{}", inj.class_prefix, super::c17::field_class(&field)), &kind_name(f), &field).with(
                    format!("immediately after {} injected at boundary {p}", f.short()),
                    e,
                    ac,
                ),
            );
            return out;
        }
    }
    if out.fired == 0 {
        return out;
    }
    let site = if inj.faults.len() == 1 { kind_name(&inj.faults[0]) } else { "several".to_string() };
    for i in p..r.ops.len() {
        let rb = b.apply(&r.ops[i]);
        if b.fuel_out {
            out.fuel = true;
            return out;
        }
        if rb.class_kind() != r.res_after[i].class_kind() {
            out.violation = Some(
                Violation::new(inj.prop, &format!("{}:result", inj.class_prefix), &site, "result").with(
                    format!("injected at boundary {p}, then op {i} {}", r.ops[i].short()),
                    r.res_after[i].brief(),
                    rb.brief(),
                ),
            );
            return out;
        }
        if !matches!(rb, Res::Noop) {
            out.compared += 1;
        }
        let ob = b.observe();
        if let Some((field, e, ac)) = r.obs_after[i].first_diff(&ob, inj.skip) {
            out.violation = Some(
                Violation::new(inj.prop, &format!("{}:{}", inj.class_prefix, super::c17::field_class(&field)), &site, &field).with(
                    format!("injected at boundary {p}, then op {i} {}", r.ops[i].short()),
                    e,
                    ac,
                ),
            );
            return out;
        }
    }
    // peer events of the suffix, without those produced inside the injected calls themselves
    let blog = b.log.borrow();
    let mut filtered: Vec<Ev> = Vec::new();
    for (i, e) in blog.iter().enumerate().skip(mark) {
        if injected_marks.iter().any(|(a, z)| i >= *a && i < *z) {
            continue;
        }
        filtered.push(e.clone());
    }
    let ea = peer_strings(&r.peer_log, r.log_marks[p]);
    let eb = peer_strings(&filtered, 0);
    if ea != eb {
        let i = ea.iter().zip(eb.iter()).position(|(x, y)| x != y).unwrap_or(ea.len().min(eb.len()));
        out.violation = Some(Violation::new(inj.prop, &format!("{}:peers", inj.class_prefix), &site, "peer event log").with(
            format!("injected at boundary {p}"),
            ea.get(i).cloned().unwrap_or_else(|| "<end>".into()),
            eb.get(i).cloned().unwrap_or_else(|| "<end>".into()),
        ));
    }
    out
}

pub fn kind_name(op: &Op) -> String {
    match op {
        Op::Invalid(k) => {
            let s = format!("{k:?}");
            s.split(|c: char| c == '(' || c == ' ' || c == '{').next().unwrap_or("").to_string()
        }
        Op::Eval { name, .. } => format!("Eval:{name}"),
        other => other.short(),
    }
}

pub fn note_ref_err(res: &mut CaseResult, e: RefErr) {
    match e {
        RefErr::Construct(r) => res.discard = Some(format!("construct-{}", r.class().split(' ').next().unwrap_or(""))),
        RefErr::Fuel => res.discard = Some("fuel".into()),
    }
}
