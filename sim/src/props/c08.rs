//! C08 - how the host slices continuation never changes the story.
//!
//! Simulated: the clock. `continue_async` runs its real stopwatch code against
//! the virtual clock of the clock_gettime seam; a pause is realised by making
//! the k-th clock read of a call jump past the time limit.
use serde_json::json;

use super::inject::peer_strings;
use super::*;
use crate::corpus::Corpus;
use crate::engine::{CaseResult, PropertyDef, Tier};
use crate::host::Ev;
use crate::rng::Rng;

pub static DEF: PropertyDef = PropertyDef {
    id: "C08",
    level: "fault_enumeration",
    rule: "program (generator with assignments around line ends, externals bound safe and not-safe, observers; corpus) x seeded continue/choose history. Reference = plain cont(). \
           A calibration run with a never-expiring virtual clock counts the clock reads r_i of every continue. Enumerated: EVERY single pause position (continue i, read k <= r_i; \
           positions are sub-sampled only when a history has more than 600), the pause-after-every-read schedule, and seeded multi-pause plans; the resumed call is another \
           sliced call or a plain cont() (both). While paused every call guarded by the async check (continue_maximally, choose_path_string, evaluate_function, reset_state, \
           switch_flow, observe/remove observer, bind/unbind, get_current_text, get_current_tags) is issued and must be refused without changing anything. Oracle: after every \
           op the full observation equals the unsliced run's; over the whole history the observer-notification and external-call logs are equal; after the line completes the \
           story is usable again. Non-trivial = at least one pause was actually taken and the line then completed; distinct = hash of (program, history, pause plan).",
    assumptions: &["the time limit is read only through clock_gettime (verified by the calibration run: reads > 0 for every sliced continue)"],
    runs_quick: 1600,
    runs_thorough: 30000,
    exhaustive_note: "every single pause position of each sampled history (sub-sampled above 600 positions) + the pause-after-every-read schedule",
    generate,
    execute,
    must_hit: &["fault.pause.fired", "fault.paused_call.refused", "probe.async_pause_with_snapshot", "probe.async_pause", "fault.pause.every_read_schedule", "fault.pause.resumed_plain", "fault.pause.resumed_sliced"],
    // a case normally takes well under a second; one that never finishes (a call accepted while paused can
    // leave the story spinning outside the step loop, where no fuel is burnt) is a story that did not become usable again
    timeout_s: 30,
    hang_class: Some("stuck-async"),
    sub_builds: &[],
    stack_mb: 64,
};

fn generate(corpus: &Corpus, tier: Tier, run: u64, rng: &mut Rng) -> Option<Case> {
    let mut prof = GenProfile::general();
    prof.generated_pct = 75;
    prof.gcfg.assign_heavy = true;
    prof.gcfg.externals = true;
    prof.max_json = 12_000;
    let prog = pick_program(corpus, rng, &prof)?;
    let beats = match tier {
        Tier::Quick => 2 + rng.below(3),
        Tier::Thorough => 2 + rng.below(5),
    };
    let mut ops = Vec::new();
    for _ in 0..beats {
        let k = 1 + rng.below(4);
        for _ in 0..k {
            ops.push(Op::Continue);
        }
        ops.push(Op::Choose(rng.below(5) as u32));
        if rng.chance(1, 6) && !prog.info.globals.is_empty() {
            ops.push(Op::SetVar { name: rng.pick(&prog.info.globals).clone(), val: crate::script::rand_val(rng) });
        }
    }
    let mut host = default_host(&prog, rng);
    host.handler = rng.chance(1, 2);
    if !prog.info.globals.is_empty() {
        for _ in 0..2 {
            let g = rng.pick(&prog.info.globals).clone();
            let o = rng.below(3) as u8;
            if !host.observers.iter().any(|x| x.0 == o && x.1 == g) {
                host.observers.push((o, g));
            }
        }
    }
    // seeded multi-pause plans: for each continue a list of pause positions
    let plans: Vec<Vec<Vec<u32>>> = (0..4)
        .map(|_| {
            ops.iter()
                .map(|_| {
                    let n = rng.below(4);
                    (0..n).map(|_| 1 + rng.below(12) as u32).collect()
                })
                .collect()
        })
        .collect();
    Some(Case {
        prop: "C08".into(),
        run,
        host,
        ops,
        params: json!({"plans": plans}),
        hash_seed: rng.next_u64(),
        story_seed: rng.below(100) as i32,
        fuel: 3_000_000,
        program: prog,
    })
}

/// Lines, observer notifications and external calls. When the error handler is called is not
/// part of the property (a pause may hand over a warning before the line's later error).
fn peers_c08(log: &[Ev]) -> Vec<String> {
    let filtered: Vec<Ev> = log.iter().filter(|e| !matches!(e, Ev::Handler { .. })).cloned().collect();
    peer_strings(&filtered, 0)
}

struct RefRun {
    obs: Vec<Obs>,
    res: Vec<Res>,
    peers: Vec<String>,
}

fn run_plain(case: &Case) -> Result<RefRun, String> {
    let mut a = Host::new(&case.program, &case.host).map_err(|_| "construct".to_string())?;
    let mut r = RefRun { obs: vec![], res: vec![], peers: vec![] };
    for op in &case.ops {
        let x = a.apply(op);
        if a.fuel_out {
            return Err("fuel".into());
        }
        if x.is_panic() {
            return Err("reference-panic".into());
        }
        r.obs.push(a.observe());
        r.res.push(x);
    }
    r.peers = peers_c08(&a.log.borrow());
    Ok(r)
}

/// Run the history with continue `i` replaced by `sliced[i]` (if any) and compare with the reference.
fn run_sliced(case: &Case, reference: &RefRun, sliced: &dyn Fn(usize) -> Option<Op>, probe: bool, label: &str, res: &mut CaseResult) -> Option<(u64, Vec<u64>)> {
    let mut b = Host::new(&case.program, &case.host).ok()?;
    b.probe_paused = probe;
    let mut reads = Vec::new();
    for (i, op) in case.ops.iter().enumerate() {
        let repl = if matches!(op, Op::Continue) { sliced(i) } else { None };
        let use_op = repl.as_ref().unwrap_or(op);
        let r = b.apply(use_op);
        if b.fuel_out {
            res.discard = Some("fuel".into());
            return None;
        }
        reads.push(if repl.is_some() { b.last_sliced_reads } else { 0 });
        let at = format!("{label}; op {i} {}", use_op.short());
        if let Res::Panic(s, m) = &r {
            res.fail(Violation::new("C08", "panic", s, &crate::host::norm_msg(m)).with(at, reference.res[i].brief(), r.brief()));
            return None;
        }
        if let Res::Err(k, m) = &r
            && k == "Harness"
        {
            res.fail(Violation::new("C08", "stuck-async", "continue_async", m).with(at, "the line completes".into(), r.brief()));
            return None;
        }
        if r.class_kind() != reference.res[i].class_kind() {
            res.fail(Violation::new("C08", "slice-divergence:result", "continue_async", "result").with(at, reference.res[i].brief(), r.brief()));
            return None;
        }
        // the text a sliced continue delivers
        if let (Res::Ok(x), Res::Ok(y)) = (&reference.res[i], &r)
            && x != y
            && matches!(op, Op::Continue)
        {
            res.fail(Violation::new("C08", "slice-divergence:text", "continue_async", "delivered line").with(at, x.clone(), y.clone()));
            return None;
        }
        let ob = b.observe();
        if ob.text.starts_with("<err") || ob.tags.starts_with("<err") {
            res.fail(Violation::new("C08", "stuck-async", "continue_async", "story not usable after the line completed").with(at, "get_current_text works".into(), format!("{} {}", ob.text, ob.tags)));
            return None;
        }
        if let Some((f, e, a)) = reference.obs[i].first_diff(&ob, &no_skip) {
            res.fail(Violation::new("C08", &format!("slice-divergence:{}", super::c17::field_class(&f)), "continue_async", &f).with(at, e, a));
            return None;
        }
    }
    // guarded calls while paused: all refused
    let log = b.log.borrow();
    let mut refused = 0u64;
    for e in log.iter() {
        if let Ev::PausedCall { call, refused: r } = e {
            if *r {
                refused += 1;
            } else {
                res.fail(Violation::new("C08", &format!("not-refused:{call}"), call, "a guarded call was accepted while a sliced continue was unfinished").with(label.to_string(), "Err".into(), "Ok".into()));
                return None;
            }
        }
    }
    res.stats.add("fault.paused_call.refused", refused);
    let peers = peers_c08(&log);
    if peers != reference.peers {
        let i = peers.iter().zip(reference.peers.iter()).position(|(a, b)| a != b).unwrap_or(peers.len().min(reference.peers.len()));
        res.fail(Violation::new("C08", "slice-divergence:peers", "continue_async", "observer / external / line events").with(
            label.to_string(),
            reference.peers.get(i).cloned().unwrap_or_else(|| "<end>".into()),
            peers.get(i).cloned().unwrap_or_else(|| "<end>".into()),
        ));
        return None;
    }
    Some((b.pauses_taken, reads))
}

fn execute(case: &Case) -> CaseResult {
    let mut res = CaseResult::default();
    res.fingerprint = crate::rng::fnv(&format!("{}|{:?}", case.program.name, case.ops)) ^ crate::rng::fnv(&case.program.json);
    let reference = match run_plain(case) {
        Ok(r) => r,
        Err(e) => {
            res.discard = Some(e);
            return res;
        }
    };
    // ---- calibration: sliced calls under a clock that never expires
    let never = |_i: usize| Some(Op::ContinueSliced { pauses: vec![], finish_plain: false, repeat_last: false });
    let reads = match run_sliced(case, &reference, &never, false, "calibration (no pause)", &mut res) {
        Some((_, r)) => r,
        None => return res,
    };
    let total: u64 = reads.iter().sum();
    res.stats.add("pause_positions.total", total);
    let stride = if total > 600 { (total / 600 + 1) as usize } else { 1 };
    let only = case.params.get("only_pause").and_then(|p| p.as_array()).map(|a| (a[0].as_u64().unwrap_or(0) as usize, a[1].as_u64().unwrap_or(0) as u32));
    // ---- every single pause position
    let mut pos_index = 0usize;
    'outer: for (i, r) in reads.iter().enumerate() {
        if *r < 2 {
            continue;
        }
        // read 0 is Instant::now(); reads 1..r-1 are the per-step checks
        for k in 1..*r as u32 {
            pos_index += 1;
            if pos_index % stride != 0 {
                continue;
            }
            if let Some(o) = only
                && o != (i, k)
            {
                continue;
            }
            let plain = (i + k as usize) % 2 == 0;
            let sl = move |j: usize| if j == i { Some(Op::ContinueSliced { pauses: vec![k], finish_plain: plain, repeat_last: false }) } else { None };
            res.stats.inc("fault.pause.planned");
            match run_sliced(case, &reference, &sl, true, &format!("pause at continue #{i}, clock read {k}, resumed {}", if plain { "by cont()" } else { "by continue_async" }), &mut res) {
                Some((taken, _)) => {
                    if taken > 0 {
                        res.stats.inc("fault.pause.fired");
                        res.stats.inc(if plain { "fault.pause.resumed_plain" } else { "fault.pause.resumed_sliced" });
                        res.nontrivial = true;
                        res.stats.mark("distinct_plans", crate::rng::fnv(&format!("{}|{:?}|{i}|{k}", case.program.name, case.ops)));
                    }
                }
                None => {
                    if res.discard.is_some() || res.violations.len() >= 3 {
                        break 'outer;
                    }
                }
            }
        }
    }
    if res.discard.is_some() {
        return res;
    }
    // ---- pause after every read
    if only.is_none() {
        let every = |_i: usize| Some(Op::ContinueSliced { pauses: vec![1], finish_plain: false, repeat_last: true });
        if let Some((taken, _)) = run_sliced(case, &reference, &every, total < 400, "pause after every clock read", &mut res)
            && taken > 0
        {
            res.stats.inc("fault.pause.every_read_schedule");
            res.stats.add("fault.pause.fired", taken);
        }
        // ---- seeded multi-pause plans
        let plans: Vec<Vec<Vec<u32>>> = serde_json::from_value(case.params["plans"].clone()).unwrap_or_default();
        for (pi, plan) in plans.iter().enumerate() {
            let pl = plan.clone();
            let f = move |i: usize| pl.get(i).filter(|p| !p.is_empty()).map(|p| Op::ContinueSliced { pauses: p.clone(), finish_plain: i % 2 == 0, repeat_last: false });
            if let Some((taken, _)) = run_sliced(case, &reference, &f, false, &format!("seeded multi-pause plan {pi}"), &mut res)
                && taken > 0
            {
                res.stats.inc("fault.pause.multi_plan");
            }
            if res.discard.is_some() {
                return res;
            }
        }
    }
    res
}
