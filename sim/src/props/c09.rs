//! C09 - a rejected host call leaves the story exactly as it was.
use serde_json::json;

use super::inject::*;
use super::*;
use crate::corpus::Corpus;
use crate::engine::{CaseResult, PropertyDef, Tier};
use crate::rng::Rng;
use crate::script::{ScriptCfg, gen_script, gen_tail};

pub static DEF: PropertyDef = PropertyDef {
    id: "C09",
    level: "fault_enumeration",
    rule: "program (corpus + generator with externals, observers, flows) x seeded valid host history; EVERY kind of invalid call (continue/continue_async when the story \
           cannot continue, choose out of range / usize::MAX, set or observe an undeclared variable, evaluate unknown/empty/whitespace function, jump to an unknown or hostile \
           path with and without call-stack reset, remove a missing/default flow, remove an unregistered observer for one/all variables, bind twice, unbind unbound, \
           visit count / tags at a bad path) is injected at EVERY distinct boundary of the history, one at a time; the call must return Err (no panic, no Ok) and the \
           run is compared in lockstep with the uninjected history: full observation after the call and after every later op, plus observer/external/handler/line events. \
           Non-trivial = the call was actually rejected and at least one later non-noop op was compared; distinct = hash of program+history.",
    assumptions: &["load_state is excluded from the invalid calls (a failed load is C15's subject)"],
    runs_quick: 2400,
    runs_thorough: 40000,
    exhaustive_note: "all invalid-call kinds x all distinct boundaries of each sampled history",
    generate,
    execute,
    must_hit: &["fault.rejected_call.fired", "fault.rejected_call.attempted.ContinueWhenCant", "fault.rejected_call.attempted.RemoveMissingFlow", "fault.rejected_call.attempted.BindTwice", "fault.rejected_call.attempted.RemoveUnregisteredObserver", "fault.rejected_call.attempted.JumpInsideFunction"],
    timeout_s: 30,
    hang_class: None,
    sub_builds: &[],
    stack_mb: 64,
};

pub fn kinds() -> Vec<InvalidKind> {
    use InvalidKind::*;
    vec![
        ContinueWhenCant,
        ContinueAsyncWhenCant,
        ChooseOutOfRange(0),
        ChooseOutOfRange(1),
        ChooseHuge,
        SetUndeclared,
        ObserveUndeclared,
        EvalUnknown,
        EvalEmpty,
        EvalWhitespace,
        JumpUnknown { reset: false },
        JumpUnknown { reset: true },
        JumpHostile { reset: false },
        JumpHostile { reset: true },
        JumpInsideFunction,
        RemoveMissingFlow,
        RemoveDefaultFlow,
        RemoveUnregisteredObserver { specific: true },
        RemoveUnregisteredObserver { specific: false },
        BindTwice,
        UnbindUnbound,
        VisitCountBadPath,
        TagsBadPath,
    ]
}

fn generate(corpus: &Corpus, tier: Tier, run: u64, rng: &mut Rng) -> Option<Case> {
    let mut prof = GenProfile::general();
    prof.gcfg.externals = true;
    let prog = pick_program(corpus, rng, &prof)?;
    let beats = match tier {
        Tier::Quick => 2 + rng.below(3),
        Tier::Thorough => 2 + rng.below(6),
    };
    let cfg = ScriptCfg {
        beats,
        flows: rng.chance(1, 2),
        jumps: rng.chance(1, 4),
        evals: rng.chance(1, 5),
        setvars: rng.chance(1, 2),
        observers: rng.chance(1, 2),
        saves: rng.chance(1, 4),
        resets: rng.chance(1, 8),
        continue_max: rng.chance(1, 3),
        jump_functions: false,
        eval_any_knot: false,
    };
    let mut ops = gen_script(rng, &prog, &cfg);
    // tail: plain play plus a host assignment to an observed variable so that a leaked
    // observation counter becomes visible
    let mut tail = gen_tail(rng, 3);
    let mut host = default_host(&prog, rng);
    if !prog.info.globals.is_empty() {
        let g = rng.pick(&prog.info.globals).clone();
        if !host.observers.iter().any(|o| o.1 == g) {
            host.observers.push((0, g.clone()));
        }
        tail.push(Op::SetVar { name: g, val: Val::Int(41) });
        tail.push(Op::Save(1));
    }
    ops.extend(tail);
    Some(Case {
        prop: "C09".into(),
        run,
        host,
        ops,
        params: json!({}),
        hash_seed: rng.next_u64(),
        story_seed: rng.below(100) as i32,
        fuel: 900_000,
        program: prog,
    })
}

fn execute(case: &Case) -> CaseResult {
    let mut res = CaseResult::default();
    res.fingerprint = crate::rng::fnv(&format!("{}|{:?}", case.program.name, case.ops)) ^ crate::rng::fnv(&case.program.json);
    let r = match reference(case, &case.ops) {
        Ok(r) => r,
        Err(e) => {
            note_ref_err(&mut res, e);
            return res;
        }
    };
    let only_kind = case.params.get("only_kind").and_then(|k| k.as_str()).map(|s| s.to_string());
    for &p in &r.distinct {
        for k in kinds() {
            let f = Op::Invalid(k);
            let name = kind_name(&f);
            if let Some(o) = &only_kind
                && *o != name
            {
                continue;
            }
            res.stats.inc("fault.rejected_call.planned");
            let faults = [f];
            // the statement names the calls that must *fail*; for the others (removing something
            // that is not there, unbinding an unbound name, read-only queries on a bad path) a
            // silent no-op is as acceptable as an error: they must not panic or change anything
            let must_reject = matches!(
                name.as_str(),
                "ContinueWhenCant" | "ContinueAsyncWhenCant" | "ChooseOutOfRange" | "ChooseHuge" | "SetUndeclared" | "ObserveUndeclared"
                    | "EvalUnknown" | "EvalEmpty" | "EvalWhitespace" | "JumpUnknown" | "JumpHostile" | "JumpInsideFunction" | "BindTwice" | "RemoveDefaultFlow"
            );
            let inj = Injection { prop: "C09", faults: &faults, expect_err: must_reject, skip: &no_skip, class_prefix: "leaked-change", either_result: !must_reject };
            let out = inject_at(case, &r, p, &inj);
            if out.fuel {
                res.discard = Some("fuel".into());
                return res;
            }
            if out.results.iter().any(|r| !matches!(r, Res::Noop)) {
                res.stats.inc(&format!("fault.rejected_call.attempted.{name}"));
            }
            if out.fired > 0 {
                res.stats.inc("fault.rejected_call.fired");
                res.stats.inc(&format!("fault.rejected_call.kind.{name}"));
                if out.compared > 0 {
                    res.nontrivial = true;
                }
            }
            if let Some(v) = out.violation {
                res.fail(v);
            }
        }
    }
    res
}
