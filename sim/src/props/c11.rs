//! C11 - variable observers see each committed change once, with the final value.
use serde_json::json;

use super::*;
use crate::corpus::Corpus;
use crate::engine::{CaseResult, PropertyDef, Tier};
use crate::host::{Ev, render_value};
use crate::rng::Rng;
use crate::script::rand_val;

pub static DEF: PropertyDef = PropertyDef {
    id: "C11",
    level: "exploration",
    rule: "generated programs with assignments before, between and after line ends (glue deciding whether look-ahead is kept), inside functions called mid-line, tunnels and choice \
           bodies, plus corpus programs x seeded histories in which several observer peers are added/removed at arbitrary points on shared and distinct variables, the host assigns \
           variables between continues, a third of the histories finish lines in time-limited slices (one outermost continue = all its slices), and the instance is reset, saved, loaded and crash-restored. Every continue is bracketed by polls of all globals. Oracle over the recorded \
           notification history: for each registration (observer, variable) active during a completed continue: value changed => exactly one notification carrying the value polled \
           after the continue; unchanged => at most one, carrying that value; no notification for a pair that is not registered; all notifications of a continue come after its last \
           external-function call; a host assignment notifies each registered observer exactly once, immediately, with the assigned value; removals never panic. \
           Non-trivial = at least one registered observer was notified of a committed change; distinct = hash of program+history.",
    assumptions: &["notifications produced inside reset_state / load_state themselves are not constrained"],
    runs_quick: 10000,
    runs_thorough: 200000,
    exhaustive_note: "none (sampled programs and histories)",
    generate,
    execute,
    must_hit: &["fault.observer.notified_after_unhandled_error_and_reset", "fault.observer.change_notified", "fault.observer.removed_then_silent", "fault.observer.setvar_notified", "fault.observer.after_reset_notified", "fault.observer.after_restore_notified", "probe.snapshot_restored", "fault.observer.unchanged_continue", "fault.slice.notified_in_sliced_continue"],
    timeout_s: 30,
    hang_class: None,
    sub_builds: &[],
    stack_mb: 64,
};

fn generate(corpus: &Corpus, tier: Tier, run: u64, rng: &mut Rng) -> Option<Case> {
    let mut prof = GenProfile::general();
    prof.generated_pct = 80;
    prof.gcfg.assign_heavy = true;
    prof.gcfg.externals = true;
    // runtime errors and warnings on the way: notifications must keep working after an unhandled
    // error and the reset that follows it
    prof.gcfg.message_sites = rng.chance(1, 3);
    let prog = pick_program(corpus, rng, &prof)?;
    if prog.info.globals.is_empty() {
        return None;
    }
    let beats = match tier {
        Tier::Quick => 3 + rng.below(5),
        Tier::Thorough => 3 + rng.below(9),
    };
    let globals = &prog.info.globals;
    let mut ops = Vec::new();
    let sliced = rng.chance(1, 3);
    for _ in 0..beats {
        // peer churn
        let n = rng.below(3);
        for _ in 0..n {
            let g = rng.pick(globals).clone();
            let o = rng.below(3) as u8;
            if rng.chance(2, 3) {
                ops.push(Op::Observe { obs: o, var: g });
            } else {
                ops.push(Op::Unobserve { obs: o, var: if rng.chance(2, 3) { Some(g) } else { None } });
            }
        }
        if rng.chance(1, 4) {
            let g = rng.pick(globals).clone();
            if rng.chance(1, 4) {
                let g2 = rng.pick(globals).clone();
                ops.push(Op::CopyVar { from: g2, to: g });
            } else {
                ops.push(Op::SetVar { name: g, val: rand_val(rng) });
            }
        }
        match rng.below(14) {
            0 | 5 => ops.push(Op::Reset),
            1 => {
                ops.push(Op::Save(0));
                ops.push(Op::Load(0));
            }
            2 => {
                ops.push(Op::Save(0));
                ops.push(Op::CrashRestore(0));
            }
            3 => ops.push(Op::Invalid(InvalidKind::ContinueWhenCant)),
            4 => ops.push(Op::Invalid(InvalidKind::RemoveUnregisteredObserver { specific: rng.chance(1, 2) })),
            _ => {}
        }
        let k = 1 + rng.below(4);
        for _ in 0..k {
            if sliced && rng.chance(1, 2) {
                // one outermost continue spread over several time-limited calls (virtual clock)
                ops.push(Op::ContinueSliced { pauses: vec![1 + rng.below(8) as u32], finish_plain: rng.chance(1, 3), repeat_last: true });
            } else {
                ops.push(Op::Continue);
            }
        }
        ops.push(Op::Choose(rng.below(5) as u32));
    }
    let mut host = default_host(&prog, rng);
    // without a handler an erroring continue returns Err before notifications are sent (that
    // continue is not checked), but every later continue - after a reset - is
    host.handler = rng.chance(2, 3);
    for _ in 0..(1 + rng.below(3)) {
        let g = rng.pick(globals).clone();
        let o = rng.below(3) as u8;
        if !host.observers.iter().any(|x| x.0 == o && x.1 == g) {
            host.observers.push((o, g));
        }
    }
    Some(Case {
        prop: "C11".into(),
        run,
        host,
        ops,
        params: json!({}),
        hash_seed: rng.next_u64(),
        story_seed: rng.below(100) as i32,
        fuel: 200_000,
        program: prog,
    })
}

/// The origin names an empty list remembers are bookkeeping, not the value a host assigned or sees.
fn norm(v: &str) -> String {
    match v.find("]@[") {
        Some(i) if v.starts_with("l:[") => v[..i + 1].to_string(),
        _ => v.to_string(),
    }
}

fn poll(h: &Host) -> Vec<(String, String)> {
    let mut v = Vec::new();
    if let Some(st) = h.story.as_ref() {
        for g in &h.prog.info.globals {
            let val = st.get_variable(g).map(|x| norm(&render_value(&x))).unwrap_or_else(|| "<none>".into());
            v.push((g.clone(), val));
        }
    }
    v
}

fn execute(case: &Case) -> CaseResult {
    let mut res = CaseResult::default();
    let prog = &case.program;
    res.fingerprint = crate::rng::fnv(&format!("{}|{:?}|{:?}", prog.name, case.ops, case.host.observers)) ^ crate::rng::fnv(&prog.json);
    let mut h = match Host::new(prog, &case.host) {
        Ok(h) => h,
        Err(_) => {
            res.discard = Some("construct".into());
            return res;
        }
    };
    let mut removed_pairs: Vec<(u8, String)> = Vec::new();
    let mut since_reset = false;
    let mut since_restore = false;
    let mut unhandled_error_then_reset = false;
    let mut unhandled_error = false;
    for (i, op) in case.ops.iter().enumerate() {
        let at = format!("op {i} {}", op.short());
        let regs_before = h.regs.clone();
        let before = poll(&h);
        let mark = h.log.borrow().len();
        let could = h.can_continue();
        let r = h.apply(op);
        if h.fuel_out {
            res.discard = Some("fuel".into());
            return res;
        }
        if let Res::Panic(s, m) = &r {
            // removals must never panic; other panics are C04's subject
            if matches!(op, Op::Unobserve { .. } | Op::Observe { .. } | Op::Invalid(InvalidKind::RemoveUnregisteredObserver { .. })) {
                res.fail(Violation::new("C11", "panic", s, &crate::host::norm_msg(m)).with(at, "Ok/Err".into(), r.brief()));
            } else {
                res.stats.inc("stopped_by_unrelated_panic");
            }
            return res;
        }
        let evs: Vec<Ev> = h.log.borrow()[mark..].to_vec();
        let calls: Vec<(u8, String, String)> = evs
            .iter()
            .filter_map(|e| match e {
                Ev::Observer { obs, var, val } => Some((*obs, var.clone(), norm(val))),
                _ => None,
            })
            .collect();
        match op {
            Op::Unobserve { obs, var } if matches!(r, Res::Ok(_)) => {
                for rg in &regs_before {
                    if rg.0 == *obs % 4 && var.as_ref().map(|v| v == &rg.1).unwrap_or(true) {
                        removed_pairs.push(rg.clone());
                    }
                }
            }
            Op::Observe { obs, var } if matches!(r, Res::Ok(_)) => {
                removed_pairs.retain(|p| !(p.0 == *obs % 4 && &p.1 == var));
            }
            Op::Reset => {
                since_reset = true;
                if unhandled_error {
                    unhandled_error_then_reset = true;
                    unhandled_error = false;
                }
            }
            Op::CrashRestore(_) | Op::Load(_) => since_restore = true,
            _ => {}
        }
        match op {
            Op::Continue | Op::ContinueSliced { .. } if could => {
                if matches!(op, Op::ContinueSliced { .. }) {
                    res.stats.inc("fault.slice.continue_sliced");
                    if !calls.is_empty() {
                        res.stats.inc("fault.slice.notified_in_sliced_continue");
                    }
                }
                let after = poll(&h);
                if !matches!(r, Res::Ok(_)) {
                    if matches!(&r, Res::Err(_, m) if m.contains("Ink had")) {
                        unhandled_error = true;
                    }
                    continue; // not a completed continue
                }
                // notifications come after the continue's work (its last external call)
                let last_ext = evs.iter().rposition(|e| matches!(e, Ev::External { .. }));
                let first_obs = evs.iter().position(|e| matches!(e, Ev::Observer { .. }));
                if let (Some(le), Some(fo)) = (last_ext, first_obs)
                    && fo < le
                {
                    res.fail(Violation::new("C11", "observer:early", "continue", "notified before the continue's work was done").with(
                        at.clone(),
                        "all notifications after the last external call".into(),
                        format!("{} then {}", evs[fo].render(), evs[le].render()),
                    ));
                }
                for (o, v, val) in &calls {
                    if !regs_before.iter().any(|rg| rg.0 == *o && &rg.1 == v) {
                        let was_removed = removed_pairs.iter().any(|p| p.0 == *o && &p.1 == v);
                        res.fail(
                            Violation::new("C11", if was_removed { "observer:after-removal" } else { "observer:not-registered" }, "continue", "notification for a pair that is not registered")
                                .with(at.clone(), "no call".into(), format!("observer#{o} {v}={val}")),
                        );
                    }
                }
                let mut any_unchanged = true;
                for (o, v) in &regs_before {
                    let b = before.iter().find(|x| &x.0 == v).map(|x| x.1.clone()).unwrap_or_default();
                    let a = after.iter().find(|x| &x.0 == v).map(|x| x.1.clone()).unwrap_or_default();
                    let mine: Vec<&(u8, String, String)> = calls.iter().filter(|c| c.0 == *o && &c.1 == v).collect();
                    if mine.len() > 1 {
                        res.fail(Violation::new("C11", "observer:duplicate", "continue", &format!("{} notifications for one variable in one continue", mine.len())).with(
                            at.clone(),
                            "at most one".into(),
                            format!("{:?}", mine),
                        ));
                        continue;
                    }
                    if a != b {
                        any_unchanged = false;
                        if mine.is_empty() {
                            let lost = since_reset || since_restore;
                            res.fail(
                                Violation::new("C11", if lost { "observer:lost-registration" } else { "observer:missed" }, "continue", "committed change not notified")
                                    .with(at.clone(), format!("observer#{o} {v}={a} (was {b})"), "no call".into()),
                            );
                            continue;
                        }
                        res.stats.inc("fault.observer.change_notified");
                        if unhandled_error_then_reset {
                            res.stats.inc("fault.observer.notified_after_unhandled_error_and_reset");
                        }
                        res.nontrivial = true;
                        if since_reset {
                            res.stats.inc("fault.observer.after_reset_notified");
                        }
                        if since_restore {
                            res.stats.inc("fault.observer.after_restore_notified");
                        }
                    }
                    if let Some(c) = mine.first()
                        && c.2 != a
                    {
                        res.fail(Violation::new("C11", "observer:stale", "continue", "notified value is not the value the variable has when the continue returns").with(
                            at.clone(),
                            format!("{v}={a}"),
                            format!("{v}={}", c.2),
                        ));
                    }
                }
                if any_unchanged && !regs_before.is_empty() {
                    res.stats.inc("fault.observer.unchanged_continue");
                }
                for p in &removed_pairs {
                    let b = before.iter().find(|x| x.0 == p.1).map(|x| x.1.clone());
                    let a = after.iter().find(|x| x.0 == p.1).map(|x| x.1.clone());
                    if a != b && !regs_before.contains(p) && !calls.iter().any(|c| c.0 == p.0 && c.1 == p.1) {
                        res.stats.inc("fault.observer.removed_then_silent");
                    }
                }
            }
            Op::SetVar { name, .. } | Op::CopyVar { to: name, .. } if matches!(r, Res::Ok(_)) => {
                let after = poll(&h);
                let a = after.iter().find(|x| &x.0 == name).map(|x| x.1.clone()).unwrap_or_default();
                for (o, v) in &regs_before {
                    let mine: Vec<&(u8, String, String)> = calls.iter().filter(|c| c.0 == *o && &c.1 == v).collect();
                    if v == name {
                        if mine.len() != 1 {
                            res.fail(Violation::new("C11", if mine.is_empty() { "observer:missed" } else { "observer:duplicate" }, "set_variable", "host assignment must notify once, immediately").with(
                                at.clone(),
                                format!("one call observer#{o} {v}={a}"),
                                format!("{} calls", mine.len()),
                            ));
                        } else if mine[0].2 != a {
                            res.fail(Violation::new("C11", "observer:stale", "set_variable", "notified value differs from the assigned value").with(at.clone(), a.clone(), mine[0].2.clone()));
                        } else {
                            res.stats.inc("fault.observer.setvar_notified");
                            res.nontrivial = true;
                        }
                    } else if !mine.is_empty() {
                        res.fail(Violation::new("C11", "observer:not-registered", "set_variable", "notification for another variable").with(at.clone(), "no call".into(), format!("{:?}", mine)));
                    }
                }
                for (o, v, val) in &calls {
                    if !regs_before.iter().any(|rg| rg.0 == *o && &rg.1 == v) {
                        res.fail(Violation::new("C11", "observer:after-removal", "set_variable", "notification for a pair that is not registered").with(at.clone(), "no call".into(), format!("observer#{o} {v}={val}")));
                    }
                }
            }
            _ => {}
        }
    }
    res
}
