//! C20 - the command-line tool speaks its protocol and matches the library.
//!
//! Simulated: the client end of the pipes and the files around the REAL
//! `rinklecate` binary (a child process; no in-process seam exists). The
//! library, driven in-process by the same input, is the reference model.
use std::io::{Read, Write};
use std::path::PathBuf;
use std::process::{Command, Stdio};
use std::time::{Duration, Instant};

use serde_json::{Value as J, json};

use super::*;
use crate::corpus::Corpus;
use crate::engine::{CaseResult, PropertyDef, Tier};
use crate::rng::Rng;

pub static DEF: PropertyDef = PropertyDef {
    id: "C20",
    level: "exploration",
    rule: "generated programs whose text, tags and choices contain quotes, backslashes, tabs, control and non-ASCII characters (no RANDOM/shuffle: the child has its own entropy) x \
           scripted stdin (valid choices, 0, out-of-range and huge numbers, '-> known', '-> unknown\"\\\\path', help, blank lines, junk, quit) delivered whole or in fragments with \
           end-of-input at a seeded point x plain / JSON mode x playing a .ink (compile+play) or a compiled .json. The real rinklecate binary runs as a child process. Oracles: \
           JSON mode - stdout is a sequence of JSON values a strict parser accepts, each an object with exactly one documented key; both modes - the lines, tags and choices \
           shown equal the in-process library transcript for the same program and input (plain mode: byte-exact stdout); compile mode - the -o file is byte-identical to the \
           library compiler's output; a compile error, a missing include or an unwritable output exits non-zero and reports the compiler's message (with file and line when it \
           has them). One case in eight is run twice and the two transcripts must be identical. Non-trivial = the child delivered at least one line and consumed at least one \
           input line (play) or wrote/refused an output (compile); distinct = hash of (program, stdin, mode).",
    assumptions: &["process scheduling and pipe buffering are real, not simulated; the protocol is strict request/response, so the transcript is a function of (files, arguments, stdin bytes) - checked by the run-twice diff"],
    runs_quick: 4000,
    runs_thorough: 120000,
    exhaustive_note: "none (sampled programs and input scripts)",
    generate,
    execute,
    must_hit: &["cli.play.json_mode", "cli.play.plain_mode", "cli.compile.output_compared", "cli.compile.error_reported", "cli.input.eof_at_prompt", "cli.input.divert_unknown", "cli.json_values_checked", "cli.hostile_text_delivered"],
    timeout_s: 60,
    hang_class: None,
    sub_builds: &[],
    stack_mb: 64,
};

pub fn cli_bin() -> PathBuf {
    std::env::var("VERIF_CLI_BIN").map(PathBuf::from).unwrap_or_else(|_| crate::engine::target_dir().join("cli/release/rinklecate"))
}

fn generate(_corpus: &Corpus, tier: Tier, run: u64, rng: &mut Rng) -> Option<Case> {
    let mut g = crate::inkgen::GenCfg::general();
    g.swarm(rng);
    g.hostile_text = true;
    g.tags = true;
    g.choices = true;
    g.random = false;
    g.shuffles = false;
    g.externals = false;
    g.message_sites = rng.chance(1, 3);
    // knot names a player may type after `->`: lower case, or with capitals
    g.prefix = rng.pick(&["", "", "Up", "mixedCase_"]).to_string();
    let prog = crate::inkgen::generate(rng, &g)?;
    let kind = rng.below(10);
    let mode = if kind < 7 { "play" } else { "compile" };
    // stdin script
    let mut lines: Vec<String> = Vec::new();
    let n = if tier == Tier::Quick { 3 + rng.below(8) } else { 3 + rng.below(16) };
    let knots = &prog.info.knots;
    for _ in 0..n {
        let l = match rng.below(20) {
            0..=9 => format!("{}", 1 + rng.below(4)),
            10 => "0".to_string(),
            11 => format!("{}", 5 + rng.below(50)),
            12 => "99999999999999999999999".to_string(),
            13 => {
                if knots.is_empty() {
                    "-> nowhere".to_string()
                } else {
                    format!("-> {}", rng.pick(knots))
                }
            }
            14 => rng.pick(&["-> unknown\"\\path", "-> no_such_knot", "-> a.b.c\"", "->   spaced", "-> \\", "-> tab\there"]).to_string(),
            15 => "help".to_string(),
            16 => rng.pick(&["", "   ", "\t"]).to_string(),
            17 => rng.pick(&["junk", "1 2", "-1", "+2", " 2 ", "HELP", "\"", "{\"x\":1}", "caf\u{e9}"]).to_string(),
            18 => rng.pick(&["2", "1", "3"]).to_string(),
            _ => {
                if rng.chance(1, 3) {
                    "quit".to_string()
                } else {
                    "1".to_string()
                }
            }
        };
        lines.push(l);
    }
    let chunks = 1 + rng.below(3);
    Some(Case {
        prop: "C20".into(),
        run,
        host: HostCfg { handler: true, fallbacks: true, bindings: vec![], observers: vec![], ext_ret: 0 },
        ops: vec![],
        params: json!({
            "mode": mode,
            "json": rng.chance(1, 2),
            "from_json_file": rng.chance(1, 3),
            "stdin": lines,
            "chunks": chunks,
            "compile_fault": rng.below(7),
            // how the source file starts: 0 as generated, 1 two blank lines, 2 a byte-order mark, 3 a byte-order mark and a blank line
            "layout": if rng.chance(1, 2) { 0 } else { rng.below(4) },
            "twice": run % 8 == 0,
            // how the input bytes arrive: LF or CRLF line ends, a last line cut off by end-of-input
            "crlf": rng.chance(1, 4),
            "no_final_newline": rng.chance(1, 4),
            // -k: say when the story has ended
            "keep_open": rng.chance(1, 3),
        }),
        hash_seed: rng.next_u64(),
        story_seed: rng.below(100) as i32,
        fuel: 300_000,
        program: prog,
    })
}

#[derive(Debug, Clone, PartialEq)]
enum Shown {
    Text(String),
    Tags(Vec<String>),
    Choices(Vec<(String, Vec<String>)>),
    /// protocol markers: a request for input, end of input seen, end of story (-k)
    Prompt,
    Close,
    End,
    Cmd(String),
}

enum Parsed {
    Choice(usize),
    Divert(String),
    Help,
    Exit,
    Unknown,
}

/// The documented input grammar: 1-based choice numbers, `-> path`, help, quit/exit.
fn parse_input(input: &str) -> Parsed {
    let lower = input.to_lowercase();
    if lower == "quit" || lower == "exit" {
        return Parsed::Exit;
    }
    if lower == "help" {
        return Parsed::Help;
    }
    let words: Vec<&str> = input.split_whitespace().collect();
    if words.len() == 2 && words[0] == "->" {
        return Parsed::Divert(words[1].to_owned());
    }
    if let Ok(n) = input.trim().parse::<usize>()
        && n >= 1
    {
        return Parsed::Choice(n - 1);
    }
    Parsed::Unknown
}

const HELP: &str = "Type a choice number or a divert (e.g. '-> myKnot'), 'quit' to exit";

struct Reference {
    shown: Vec<Shown>,
    plain_stdout: String,
    consumed: usize,
    eof_at_prompt: bool,
    fuel: bool,
    aborted: bool,
    unknown_diverts: usize,
    ended: bool,
}

/// The library driven by the same input: the reference transcript.
fn reference(case: &Case, stdin: &[String], keep_open: bool) -> Reference {
    let mut r = Reference { shown: vec![], plain_stdout: String::new(), consumed: 0, eof_at_prompt: false, fuel: false, aborted: false, unknown_diverts: 0, ended: false };
    let cfg = HostCfg { handler: true, fallbacks: true, bindings: vec![], observers: vec![], ext_ret: 0 };
    let mut h = match Host::new(&case.program, &cfg) {
        Ok(h) => h,
        Err(_) => {
            r.aborted = true;
            return r;
        }
    };
    let mut next = 0usize;
    loop {
        while h.can_continue() {
            let res = h.apply(&Op::Continue);
            if h.fuel_out {
                r.fuel = true;
                return r;
            }
            match res {
                Res::Ok(_) => {
                    let log = h.log.borrow();
                    if let Some(crate::host::Ev::Line { text, tags }) = log.iter().rev().find(|e| matches!(e, crate::host::Ev::Line { .. })) {
                        r.shown.push(Shown::Text(text.clone()));
                        r.plain_stdout.push_str(text);
                        if !tags.is_empty() {
                            r.shown.push(Shown::Tags(tags.clone()));
                            r.plain_stdout.push_str(&format!("# tags: {}\n", tags.join(", ")));
                        }
                    }
                }
                _ => {
                    // the tool propagates a failed continue and exits non-zero
                    r.aborted = true;
                    return r;
                }
            }
        }
        let choices: Vec<(String, Vec<String>)> = match h.story.as_ref() {
            Some(s) => s.get_current_choices().iter().map(|c| (c.text.clone(), c.tags.clone())).collect(),
            None => vec![],
        };
        if choices.is_empty() {
            if keep_open {
                r.plain_stdout.push_str("--- End of story ---\n");
                r.shown.push(Shown::End);
                r.ended = true;
            }
            return r;
        }
        r.shown.push(Shown::Choices(choices.clone()));
        r.plain_stdout.push('\n');
        for (i, c) in choices.iter().enumerate() {
            r.plain_stdout.push_str(&format!("{}: {}\n", i + 1, c.0));
            if !c.1.is_empty() {
                r.plain_stdout.push_str(&format!("# tags: {}\n", c.1.join(", ")));
            }
        }
        loop {
            r.plain_stdout.push_str("?> ");
            r.shown.push(Shown::Prompt);
            if next >= stdin.len() {
                r.eof_at_prompt = true;
                r.shown.push(Shown::Close);
                r.plain_stdout.push_str("<User input stream closed.>\n");
                return r;
            }
            let raw = &stdin[next];
            next += 1;
            r.consumed = next;
            let t = raw.trim();
            if t.is_empty() {
                continue;
            }
            match parse_input(t) {
                Parsed::Choice(i) => {
                    if i >= choices.len() {
                        continue;
                    }
                    let rr = h.apply(&Op::Choose(i as u32));
                    if !matches!(rr, Res::Ok(_)) {
                        r.aborted = true;
                        return r;
                    }
                    break;
                }
                Parsed::Divert(p) => {
                    let rr = h.apply(&Op::Jump { path: p, reset: true, args: vec![] });
                    if rr.is_err() {
                        r.unknown_diverts += 1;
                    }
                    if rr.is_panic() {
                        r.aborted = true;
                        return r;
                    }
                    break;
                }
                Parsed::Help => {
                    r.plain_stdout.push_str(HELP);
                    r.plain_stdout.push('\n');
                    r.shown.push(Shown::Cmd(HELP.to_string()));
                }
                Parsed::Exit => return r,
                Parsed::Unknown => {}
            }
        }
    }
}

struct ChildOut {
    stdout: Vec<u8>,
    stderr: Vec<u8>,
    code: Option<i32>,
    timed_out: bool,
}

fn run_child(args: &[String], stdin_bytes: &[u8], chunks: usize, cwd: &std::path::Path) -> Option<ChildOut> {
    let mut child = Command::new(cli_bin()).args(args).current_dir(cwd).stdin(Stdio::piped()).stdout(Stdio::piped()).stderr(Stdio::piped()).spawn().ok()?;
    let mut stdin = child.stdin.take()?;
    let mut out = child.stdout.take()?;
    let mut err = child.stderr.take()?;
    let to = std::thread::spawn(move || {
        let mut v = Vec::new();
        let mut buf = [0u8; 8192];
        while let Ok(n) = out.read(&mut buf) {
            if n == 0 || v.len() > 8 << 20 {
                break;
            }
            v.extend_from_slice(&buf[..n]);
        }
        v
    });
    let te = std::thread::spawn(move || {
        let mut v = Vec::new();
        let mut buf = [0u8; 8192];
        while let Ok(n) = err.read(&mut buf) {
            if n == 0 || v.len() > 8 << 20 {
                break;
            }
            v.extend_from_slice(&buf[..n]);
        }
        v
    });
    // deliver the input whole or in fragments, then close (end of input)
    let n = stdin_bytes.len();
    let chunks = chunks.max(1);
    let mut sent = 0;
    for c in 0..chunks {
        let end = if c + 1 == chunks { n } else { (n * (c + 1)) / chunks };
        if end > sent {
            if stdin.write_all(&stdin_bytes[sent..end]).is_err() {
                break;
            }
            let _ = stdin.flush();
            sent = end;
        }
    }
    drop(stdin);
    let t0 = Instant::now();
    let mut timed_out = false;
    let code = loop {
        match child.try_wait() {
            Ok(Some(st)) => break st.code(),
            Ok(None) => {
                if t0.elapsed() > Duration::from_secs(20) {
                    let _ = child.kill();
                    let _ = child.wait();
                    timed_out = true;
                    break None;
                }
                std::thread::sleep(Duration::from_millis(1));
            }
            Err(_) => break None,
        }
    };
    Some(ChildOut { stdout: to.join().unwrap_or_default(), stderr: te.join().unwrap_or_default(), code, timed_out })
}

const KEYS: &[&str] = &["text", "tags", "choices", "needInput", "close", "end", "issues", "cmdOutput", "compile-success", "export-complete", "stats"];

/// Strict parse of the tool's JSON-mode stdout into shown events.
fn parse_json_stdout(out: &[u8], res: &mut CaseResult, at: &str) -> Option<Vec<Shown>> {
    let text = match std::str::from_utf8(out) {
        Ok(t) => t,
        Err(e) => {
            res.fail(Violation::new("C20", "cli:bad-json", "stdout", "not valid UTF-8").with(at.to_string(), "UTF-8".into(), e.to_string()));
            return None;
        }
    };
    let mut shown = Vec::new();
    let stream = serde_json::Deserializer::from_str(text).into_iter::<J>();
    for v in stream {
        let v = match v {
            Ok(v) => v,
            Err(e) => {
                let col = e.column();
                let line = text.lines().nth(e.line().saturating_sub(1)).unwrap_or("");
                let from = col.saturating_sub(60);
                let frag: String = line.chars().skip(from).take(120).collect();
                let what = if line.starts_with("{\"issues\"") {
                    "issues"
                } else if line.starts_with("{\"text\"") {
                    "text"
                } else if line.starts_with("{\"tags\"") {
                    "tags"
                } else if line.starts_with("{\"choices\"") {
                    "choices"
                } else if line.starts_with("{\"cmdOutput\"") {
                    "cmdOutput"
                } else {
                    "other"
                };
                res.fail(Violation::new("C20", "cli:bad-json", what, "stdout is not a sequence of well-formed JSON values").with(at.to_string(), "well-formed JSON".into(), format!("{e}: ...{frag}...")));
                return None;
            }
        };
        res.stats.inc("cli.json_values_checked");
        let obj = match v.as_object() {
            Some(o) => o,
            None => {
                res.fail(Violation::new("C20", "cli:bad-json", "stdout", "a JSON value that is not an object").with(at.to_string(), "object".into(), v.to_string()));
                return None;
            }
        };
        let known: Vec<&String> = obj.keys().filter(|k| KEYS.contains(&k.as_str())).collect();
        if known.len() != 1 || obj.len() != 1 {
            res.fail(Violation::new("C20", "cli:bad-json", "stdout", "an object without exactly one documented key").with(at.to_string(), format!("one of {:?}", KEYS), v.to_string().chars().take(200).collect()));
            return None;
        }
        if let Some(t) = obj.get("text").and_then(|t| t.as_str()) {
            shown.push(Shown::Text(t.to_string()));
        } else if let Some(t) = obj.get("tags").and_then(|t| t.as_array()) {
            shown.push(Shown::Tags(t.iter().map(|x| x.as_str().unwrap_or("<non-string>").to_string()).collect()));
        } else if let Some(c) = obj.get("choices").and_then(|t| t.as_array()) {
            shown.push(Shown::Choices(
                c.iter()
                    .map(|x| {
                        (
                            x.get("text").and_then(|t| t.as_str()).unwrap_or("<missing>").to_string(),
                            x.get("tags").and_then(|t| t.as_array()).map(|a| a.iter().map(|y| y.as_str().unwrap_or("").to_string()).collect()).unwrap_or_default(),
                        )
                    })
                    .collect(),
            ));
        } else if let Some(c) = obj.get("cmdOutput").and_then(|t| t.as_str()) {
            shown.push(Shown::Cmd(c.to_string()));
        } else if obj.get("needInput") == Some(&J::Bool(true)) {
            shown.push(Shown::Prompt);
        } else if obj.get("close") == Some(&J::Bool(true)) {
            shown.push(Shown::Close);
        } else if obj.get("end") == Some(&J::Bool(true)) {
            shown.push(Shown::End);
        }
    }
    Some(shown)
}

fn execute(case: &Case) -> CaseResult {
    let mut res = CaseResult::default();
    let p = &case.params;
    res.fingerprint = crate::rng::fnv(&format!("{}|{}", case.program.name, p)) ^ crate::rng::fnv(&case.program.json);
    if !cli_bin().exists() {
        res.discard = Some("cli-binary-missing".into());
        return res;
    }
    let dir = crate::engine::out_dir().join("work").join(format!("c20-{}-{}", std::process::id(), case.run));
    let _ = std::fs::create_dir_all(&dir);
    let r = run(case, &dir, &mut res);
    let _ = std::fs::remove_dir_all(&dir);
    if let Some(d) = r {
        res.discard = Some(d);
    }
    res
}

fn run(case: &Case, dir: &std::path::Path, res: &mut CaseResult) -> Option<String> {
    let p = &case.params;
    let json_mode = p["json"].as_bool().unwrap_or(false);
    let src = case.program.source.clone().unwrap_or_default();
    let stdin: Vec<String> = serde_json::from_value(p["stdin"].clone()).unwrap_or_default();
    let chunks = p["chunks"].as_u64().unwrap_or(1) as usize;
    if p["mode"].as_str() == Some("compile") {
        return compile_mode(case, dir, res, json_mode, &src);
    }
    // ---------------------------------------------------------------- play
    let from_json = p["from_json_file"].as_bool().unwrap_or(false);
    let file = if from_json {
        std::fs::write(dir.join("story.ink.json"), &case.program.json).ok()?;
        "story.ink.json"
    } else {
        std::fs::write(dir.join("story.ink"), &src).ok()?;
        "story.ink"
    };
    let keep_open = p["keep_open"].as_bool().unwrap_or(false);
    let mut args: Vec<String> = Vec::new();
    args.push(format!("-p{}{}", if json_mode { "j" } else { "" }, if keep_open { "k" } else { "" }));
    args.push(file.to_string());
    let eol = if p["crlf"].as_bool() == Some(true) { "\r\n" } else { "\n" };
    let mut input = stdin.join(eol);
    if !stdin.is_empty() && p["no_final_newline"].as_bool() != Some(true) {
        input.push_str(eol);
    }
    if eol == "\r\n" {
        res.stats.inc("fault.input.crlf");
    }
    if !input.is_empty() && !input.ends_with('\n') {
        res.stats.inc("fault.input.no_final_newline");
    }
    // the reference reads what a line reader makes of these bytes: segments between line feeds, a last
    // segment without one if it is not empty, a carriage return before the line feed dropped
    let mut seen: Vec<String> = input.split('\n').map(|l| l.strip_suffix('\r').unwrap_or(l).to_string()).collect();
    if seen.last().map(|l| l.is_empty()).unwrap_or(false) {
        seen.pop();
    }
    let reference = reference(case, &seen, keep_open);
    if reference.fuel {
        return Some("fuel".into());
    }
    let at = format!("rinklecate {} < {:?}", args.join(" "), stdin);
    let out = run_child(&args, input.as_bytes(), chunks, dir)?;
    if out.timed_out {
        res.fail(Violation::new("C20", "cli:hang", "play", "the tool did not finish although the library transcript is finite").with(at, "exit".into(), "killed after 20 s".into()));
        return None;
    }
    if p["twice"].as_bool() == Some(true) {
        let out2 = run_child(&args, input.as_bytes(), 1, dir)?;
        res.stats.inc("cli.run_twice");
        if out2.stdout != out.stdout || out2.code != out.code {
            res.fail(Violation::new("C20", "cli:nondeterministic", "play", "two runs with the same files, arguments and input differ").with(
                at.clone(),
                String::from_utf8_lossy(&out.stdout).chars().take(300).collect(),
                String::from_utf8_lossy(&out2.stdout).chars().take(300).collect(),
            ));
            return None;
        }
    }
    if reference.aborted {
        // the library itself refused to go on (failed continue): the tool must exit non-zero, nothing else is compared
        res.stats.inc("cli.play.library_aborted");
        if out.code == Some(0) {
            res.fail(Violation::new("C20", "cli:exit-code", "play", "the library failed but the tool exited 0").with(at, "non-zero".into(), "0".into()));
        }
        return None;
    }
    if reference.eof_at_prompt {
        res.stats.inc("cli.input.eof_at_prompt");
    }
    if reference.unknown_diverts > 0 {
        res.stats.inc("cli.input.divert_unknown");
    }
    if reference.shown.iter().any(|s| matches!(s, Shown::Text(t) if t.contains('"') || t.contains('\\') || t.contains('\u{1}') || t.contains('\u{1F600}'))) {
        res.stats.inc("cli.hostile_text_delivered");
    }
    if out.code != Some(0) {
        res.fail(Violation::new("C20", "cli:exit-code", "play", "the tool exited non-zero although the library played the same input without failure").with(
            at.clone(),
            "0".into(),
            format!("{:?}; stderr: {}", out.code, String::from_utf8_lossy(&out.stderr).chars().take(300).collect::<String>()),
        ));
        return None;
    }
    if json_mode {
        res.stats.inc("cli.play.json_mode");
        let shown = parse_json_stdout(&out.stdout, res, &at)?;
        if shown != reference.shown {
            let i = shown.iter().zip(reference.shown.iter()).position(|(a, b)| a != b).unwrap_or(shown.len().min(reference.shown.len()));
            res.fail(Violation::new("C20", "cli:transcript", "json mode", "lines, tags or choices differ from the library's").with(
                format!("{at}; entry {i}"),
                format!("{:?}", reference.shown.get(i)),
                format!("{:?}", shown.get(i)),
            ));
        }
    } else {
        res.stats.inc("cli.play.plain_mode");
        let got = String::from_utf8_lossy(&out.stdout).to_string();
        if got != reference.plain_stdout {
            let common = got.bytes().zip(reference.plain_stdout.bytes()).take_while(|(a, b)| a == b).count();
            let from = common.saturating_sub(80);
            let cut = |s: &str| String::from_utf8_lossy(&s.as_bytes()[from.min(s.len())..(from + 240).min(s.len())]).to_string();
            res.fail(Violation::new("C20", "cli:transcript", "plain mode", "stdout differs from the library transcript rendered in the documented format").with(
                format!("{at}; byte {common}"),
                cut(&reference.plain_stdout),
                cut(&got),
            ));
        }
    }
    if !reference.shown.is_empty() && reference.consumed > 0 {
        res.nontrivial = true;
    }
    None
}

fn compile_mode(case: &Case, dir: &std::path::Path, res: &mut CaseResult, json_mode: bool, src: &str) -> Option<String> {
    let fault = case.params["compile_fault"].as_u64().unwrap_or(0);
    // 0,1: good source; 2: unknown divert target; 3: missing include; 4: unwritable output; 5,6: parse errors with a line
    let mut source = src.to_string();
    let mut out_arg = "out.ink.json".to_string();
    match fault {
        2 => {
            // an unknown divert target on a line we know
            let n = source.lines().count();
            source.push_str("\n=== broken_knot ===\nline before the fault\n-> no_such_target_anywhere\n");
            let _ = n;
        }
        3 => source = format!("INCLUDE missing_file.ink\n{source}"),
        4 => out_arg = "no_such_dir/out.ink.json".to_string(),
        // errors the parser reports with the line they are on
        5 => source.push_str("\n=== broken_choice ===\n* [unclosed\n"),
        6 => source.push_str("\nVAR broken_decl =\n"),
        _ => {}
    }
    // the file as it lies on disk; the tool drops one leading byte-order mark, nothing else
    let layout = case.params["layout"].as_u64().unwrap_or(0);
    let on_disk = match layout {
        1 => format!("\n\n{source}"),
        2 => format!("{}{source}", '\u{feff}'),
        3 => format!("{}\n{source}", '\u{feff}'),
        _ => source.clone(),
    };
    if layout != 0 {
        res.stats.inc("fault.file_layout.leading_blank_or_bom");
    }
    std::fs::write(dir.join("main.ink"), &on_disk).ok()?;
    let source = on_disk.strip_prefix('\u{feff}').unwrap_or(&on_disk).to_string();
    let mut args: Vec<String> = Vec::new();
    if json_mode {
        args.push("-j".into());
    }
    args.push("-o".into());
    args.push(out_arg.clone());
    args.push("main.ink".into());
    let at = format!("rinklecate {} (fault {fault})", args.join(" "));
    let out = run_child(&args, b"", 1, dir)?;
    if out.timed_out {
        res.fail(Violation::new("C20", "cli:hang", "compile", "the tool did not finish").with(at, "exit".into(), "killed".into()));
        return None;
    }
    // the library compiler with the same options
    let d = dir.to_path_buf();
    let lib = std::panic::catch_unwind(|| {
        bladeink_compiler::Compiler::with_options(bladeink_compiler::CompilerOptions { count_all_visits: true, source_filename: Some("main.ink".into()) })
            .compile_with_file_handler(&source, move |inc| std::fs::read_to_string(d.join(inc)).map_err(|e| bladeink_compiler::CompilerError::invalid_source(format!("Failed to read included file '{}': {}", inc, e))))
    });
    let lib = match lib {
        Ok(l) => l,
        Err(_) => {
            let _ = crate::host::take_panic();
            return Some("compiler-panicked".into());
        }
    };
    let stdout = String::from_utf8_lossy(&out.stdout).to_string();
    let stderr = String::from_utf8_lossy(&out.stderr).to_string();
    if json_mode {
        parse_json_stdout(&out.stdout, res, &at)?;
    }
    // the same source through the statistics mode (-s: parse and count, nothing written): the same duties
    // for the exit code and the compiler's message
    {
        let mut sargs: Vec<String> = Vec::new();
        if json_mode {
            sargs.push("-j".into());
        }
        sargs.push("-s".into());
        sargs.push("main.ink".into());
        let sat = format!("rinklecate {} (fault {fault})", sargs.join(" "));
        let d2 = dir.to_path_buf();
        let slib = std::panic::catch_unwind(|| {
            bladeink_compiler::Compiler::with_options(bladeink_compiler::CompilerOptions { count_all_visits: true, source_filename: Some("main.ink".into()) })
                .compile_to_stats_with_file_handler(&source, move |inc| std::fs::read_to_string(d2.join(inc)).map_err(|e| bladeink_compiler::CompilerError::invalid_source(format!("Failed to read included file '{}': {}", inc, e))))
        });
        match slib {
            Err(_) => {
                let _ = crate::host::take_panic();
            }
            Ok(slib) => {
                let sout = run_child(&sargs, b"", 1, dir)?;
                if sout.timed_out {
                    res.fail(Violation::new("C20", "cli:hang", "stats", "the tool did not finish").with(sat, "exit".into(), "killed".into()));
                    return None;
                }
                if json_mode {
                    parse_json_stdout(&sout.stdout, res, &sat)?;
                }
                let sstdout = String::from_utf8_lossy(&sout.stdout).to_string();
                let sstderr = String::from_utf8_lossy(&sout.stderr).to_string();
                match slib {
                    Ok(_) => {
                        res.stats.inc("cli.stats.ok_compared");
                        if sout.code != Some(0) {
                            res.fail(Violation::new("C20", "cli:exit-code", "stats", "the library counts the source but the tool exited non-zero").with(sat, "0".into(), format!("{:?} {}", sout.code, sstderr.chars().take(300).collect::<String>())));
                            return None;
                        }
                    }
                    Err(e) => {
                        res.stats.inc("cli.stats.error_reported");
                        let msg = e.to_string();
                        if sout.code == Some(0) {
                            res.fail(Violation::new("C20", "cli:exit-code", "stats", "a compile error in statistics mode but the tool exited 0").with(sat.clone(), "non-zero".into(), "0".into()));
                        }
                        let hay = if json_mode {
                            let mut all = String::new();
                            for v in serde_json::Deserializer::from_str(&sstdout).into_iter::<J>().flatten() {
                                if let Some(a) = v.get("issues").and_then(|i| i.as_array()) {
                                    for s in a {
                                        all.push_str(s.as_str().unwrap_or(""));
                                        all.push('\n');
                                    }
                                }
                            }
                            all
                        } else {
                            sstderr.clone()
                        };
                        if !hay.contains(&msg) {
                            res.fail(Violation::new("C20", "cli:message", "stats", "the compiler's message is not reported in statistics mode").with(sat, msg, hay.chars().take(400).collect()));
                        }
                    }
                }
            }
        }
    }
    match lib {
        Ok(expected) => {
            if fault == 4 {
                res.stats.inc("cli.compile.error_reported");
                if out.code == Some(0) {
                    res.fail(Violation::new("C20", "cli:exit-code", "compile", "output could not be written but the tool exited 0").with(at, "non-zero".into(), "0".into()));
                } else if !stderr.contains("no_such_dir") {
                    res.fail(Violation::new("C20", "cli:message", "compile", "the failure to write the output is not reported").with(at, "a message naming the output file".into(), stderr.chars().take(300).collect()));
                }
                res.nontrivial = true;
                return None;
            }
            if out.code != Some(0) {
                res.fail(Violation::new("C20", "cli:exit-code", "compile", "the library compiles the source but the tool exited non-zero").with(at, "0".into(), format!("{:?} {}", out.code, stderr.chars().take(300).collect::<String>())));
                return None;
            }
            let written = std::fs::read(dir.join(&out_arg)).unwrap_or_default();
            res.stats.inc("cli.compile.output_compared");
            res.nontrivial = true;
            if written != expected.as_bytes() {
                let common = written.iter().zip(expected.as_bytes()).take_while(|(a, b)| a == b).count();
                res.fail(Violation::new("C20", "cli:compile-bytes", "compile", "the -o file differs from the library compiler's output").with(
                    format!("{at}; byte {common}"),
                    expected.chars().skip(common.saturating_sub(40)).take(160).collect(),
                    String::from_utf8_lossy(&written).chars().skip(common.saturating_sub(40)).take(160).collect(),
                ));
            }
        }
        Err(e) => {
            res.stats.inc("cli.compile.error_reported");
            res.nontrivial = true;
            let msg = e.to_string();
            if out.code == Some(0) {
                res.fail(Violation::new("C20", "cli:exit-code", "compile", "a compile error but the tool exited 0").with(at.clone(), "non-zero".into(), "0".into()));
            }
            let hay = if json_mode {
                // messages are JSON strings inside {"issues": [...]}: compare decoded
                let mut all = String::new();
                for v in serde_json::Deserializer::from_str(&stdout).into_iter::<J>().flatten() {
                    if let Some(a) = v.get("issues").and_then(|i| i.as_array()) {
                        for s in a {
                            all.push_str(s.as_str().unwrap_or(""));
                            all.push('\n');
                        }
                    }
                }
                all
            } else {
                stderr.clone()
            };
            if !hay.contains(&msg) {
                res.fail(Violation::new("C20", "cli:message", "compile", "the compiler's message (with file and line when supplied) is not reported").with(at, msg, hay.chars().take(400).collect()));
            }
        }
    }
    None
}
