//! C04 - story faults are reported as errors; the runtime never panics.
use serde_json::json;

use super::*;
use crate::corpus::{Corpus, compile_source};
use crate::engine::{CaseResult, PropertyDef, Tier};
use crate::host::Ev;
use crate::rng::Rng;
use crate::script::{ScriptCfg, gen_script, gen_tail};

pub static DEF: PropertyDef = PropertyDef {
    id: "C04",
    level: "exploration",
    rule: "compiler-accepted programs (generator in fault-prone mode: zero divisors held in variables, i32 extremes, void operands, ints where divert targets are \
           expected, missing returns/->->; source-level mutations of the corpus that still compile; the reference-compiled corpus) x seeded host histories incl. \
           save/load/crash-restore, flow switches, jumps to every named path (also into functions) with/without call-stack reset, function evaluation with random typed \
           arguments, assignments of every value type, with and without an error handler. Oracles: no panic/abort anywhere; a line that carries a division/modulo-by-zero \
           site is only delivered together with a reported error; `wrap|a|op|b|r|` lines must equal the 32-bit wrapping model; after a reported error reset_state puts the \
           instance back in lockstep with a fresh one; the same runs in the dev profile (overflow checks on) must give identical event logs. \
           Non-trivial = at least one story fault fired (an error was reported or a wrap line was checked); distinct = hash of program+history.",
    assumptions: &["fuel exhaustion discards the case (runaway stories are legal)", "the dev-profile comparison runs when ./check has built the dev binary (it always does)"],
    runs_quick: 24000,
    runs_thorough: 400000,
    exhaustive_note: "none (sampled programs and histories)",
    generate,
    execute,
    must_hit: &["fault.story_fault.fired", "fault.wrap_line.checked", "fault.zero_site.reached", "fault.reset_after_error.fired", "fault.short_eval_mid_expression.fired"],
    timeout_s: 30,
    hang_class: None,
    sub_builds: &[("dev", 5000, 40000, true)],
    stack_mb: 64,
};

/// Source-level "story fault" injector: the mutant is used only if it still compiles.
pub fn mutate_source(rng: &mut Rng, src: &str) -> String {
    let mut lines: Vec<String> = src.lines().map(|s| s.to_string()).collect();
    if lines.is_empty() {
        return src.to_string();
    }
    let n = 1 + rng.below(3);
    for _ in 0..n {
        let i = rng.below(lines.len());
        let l = lines[i].clone();
        match rng.below(6) {
            0 => {
                // integer literal -> 0 / extreme
                let mut out = String::new();
                let mut chars = l.chars().peekable();
                let mut done = false;
                while let Some(c) = chars.next() {
                    if !done && c.is_ascii_digit() && (out.ends_with(' ') || out.ends_with('(') || out.ends_with('=')) {
                        while chars.peek().map(|d| d.is_ascii_digit()).unwrap_or(false) {
                            chars.next();
                        }
                        let lit: &str = *rng.pick(&["0", "2147483647", "-2147483647", "65536"]); out.push_str(lit);
                        done = true;
                    } else {
                        out.push(c);
                    }
                }
                lines[i] = out;
            }
            1 => {
                if l.contains(" + ") {
                    lines[i] = l.replacen(" + ", *rng.pick(&[" / ", " % ", " * "]), 1);
                } else if l.contains(" - ") && (l.trim_start().starts_with('~') || l.contains('{')) {
                    lines[i] = l.replacen(" - ", *rng.pick(&[" / ", " % "]), 1);
                }
            }
            2 => {
                let t = l.trim();
                if t == "->->" || t.starts_with("~ return") || t == "-> END" || t == "-> DONE" {
                    lines.remove(i);
                    if lines.is_empty() {
                        lines.push(String::new());
                    }
                }
            }
            3 => {
                // duplicate a line
                lines.insert(i, l);
            }
            4 => {
                if l.contains("-> ") && !l.contains("->->") {
                    // retarget a divert to a variable-looking name that holds an int
                    lines[i] = l.replacen("-> ", "-> mut_dv_", 1);
                    lines.insert(0, format!("VAR mut_dv_{} = 3", l.split("-> ").nth(1).unwrap_or("x").split_whitespace().next().unwrap_or("x").replace('.', "_")));
                }
            }
            _ => {
                if l.contains(" * ") {
                    lines[i] = l.replacen(" * ", " / ", 1);
                }
            }
        }
    }
    lines.join("\n") + "\n"
}

fn generate(corpus: &Corpus, tier: Tier, run: u64, rng: &mut Rng) -> Option<Case> {
    let which = rng.below(10);
    let prog = if which < 6 {
        let mut g = crate::inkgen::GenCfg::general();
        g.externals = true;
        g.random = true;
        g.shuffles = true;
        g.swarm(rng);
        g.fault_prone = true;
        g.ext_without_fallback = rng.chance(1, 3);
        g.message_sites = rng.chance(2, 3);
        crate::inkgen::generate(rng, &g)?
    } else if which < 8 {
        // mutated corpus source
        let srcs: Vec<&Program> = corpus.programs.iter().filter(|p| p.kind == "corpus-ink" && p.json.len() < 60_000).collect();
        let base = *rng.pick(&srcs);
        let m = mutate_source(rng, base.source.as_deref().unwrap_or(""));
        let dir = crate::corpus::corpus_dir().join(&base.name);
        match compile_source(&m, dir.parent()) {
            Ok(json) => Program::from_json("corpus-mutated", &base.name, Some(m), json)?,
            Err(_) => return None,
        }
    } else {
        let c: Vec<&Program> = corpus.programs.iter().filter(|p| p.json.len() < 60_000).collect();
        (*rng.pick(&c)).clone()
    };
    let beats = match tier {
        Tier::Quick => 3 + rng.below(5),
        Tier::Thorough => 3 + rng.below(9),
    };
    let cfg = ScriptCfg {
        beats,
        flows: rng.chance(1, 3),
        jumps: rng.chance(1, 2),
        evals: rng.chance(1, 2),
        setvars: rng.chance(1, 2),
        observers: rng.chance(1, 4),
        saves: rng.chance(1, 3),
        resets: rng.chance(1, 6),
        continue_max: rng.chance(1, 3),
        jump_functions: rng.chance(1, 2),
        eval_any_knot: rng.chance(1, 2),
    };
    let mut ops = gen_script(rng, &prog, &cfg);
    // the operands of the harness-checked arithmetic sites are not host-assigned
    let reserved = |n: &str| n.starts_with("wa_") || n.starts_with("wb_") || n.starts_with("zero_");
    ops.retain(|o| match o {
        Op::SetVar { name, .. } => !reserved(name),
        Op::CopyVar { to, .. } => !reserved(to),
        _ => true,
    });
    crate::script::sprinkle_binding_changes(rng, &prog, &mut ops);
    let tail = gen_tail(rng, 3);
    let mut host = default_host(&prog, rng);
    // sometimes leave externals unbound (with and without fallbacks)
    if rng.chance(1, 4) {
        host.bindings.clear();
    }
    Some(Case {
        prop: "C04".into(),
        run,
        host,
        ops,
        params: json!({"tail": tail}),
        hash_seed: rng.next_u64(),
        story_seed: rng.below(100) as i32,
        fuel: 60_000,
        program: prog,
    })
}

fn wrap_model(a: i32, op: &str, b: i32) -> Option<i32> {
    match op {
        "+" => Some(a.wrapping_add(b)),
        "-" => Some(a.wrapping_sub(b)),
        "*" => Some(a.wrapping_mul(b)),
        _ => None,
    }
}

/// Check every `wrap|a|op|b|r|` / `wrapneg|a|r|` fragment of a delivered line.
fn check_wrap_lines(text: &str, res: &mut CaseResult, at: &str) {
    for (idx, _) in text.match_indices("wrap|") {
        let before = &text[..idx];
        if before.ends_with("neg") {
            continue;
        }
        let rest = &text[idx + 5..];
        let parts: Vec<&str> = rest.split('|').collect();
        if parts.len() < 4 {
            continue;
        }
        let (a, op, b, r) = (parts[0].trim().parse::<i32>(), parts[1].trim(), parts[2].trim().parse::<i32>(), parts[3].trim().parse::<i32>());
        if let (Ok(a), Ok(b)) = (a, b) {
            res.stats.inc("fault.wrap_line.checked");
            if let Some(m) = wrap_model(a, op, b) {
                if a.checked_add(b).is_none() && op == "+" || a.checked_sub(b).is_none() && op == "-" || a.checked_mul(b).is_none() && op == "*" {
                    res.stats.inc("fault.wrap_line.overflowing");
                }
                if r != Ok(m) {
                    res.fail(Violation::new("C04", "wrong-wrap", &format!("int {op}"), &format!("{a} {op} {b}")).with(at.to_string(), m.to_string(), parts[3].to_string()));
                }
            }
        }
    }
    for (idx, _) in text.match_indices("wrapneg|") {
        let rest = &text[idx + 8..];
        let parts: Vec<&str> = rest.split('|').collect();
        if parts.len() < 2 {
            continue;
        }
        if let Ok(a) = parts[0].trim().parse::<i32>() {
            res.stats.inc("fault.wrap_line.checked");
            let m = a.wrapping_neg();
            if parts[1].trim().parse::<i32>() != Ok(m) {
                res.fail(Violation::new("C04", "wrong-wrap", "int negate", &format!("-({a})")).with(at.to_string(), m.to_string(), parts[1].to_string()));
            }
        }
    }
}

fn execute(case: &Case) -> CaseResult {
    let mut res = CaseResult::default();
    res.fingerprint = crate::rng::fnv(&format!("{}|{:?}", case.program.name, case.ops)) ^ crate::rng::fnv(&case.program.json);
    let tail: Vec<Op> = serde_json::from_value(case.params["tail"].clone()).unwrap_or_default();
    let prog = &case.program;
    let mut h = match Host::new(prog, &case.host) {
        Ok(h) => h,
        Err(Res::Panic(s, m)) => {
            res.fail(Violation::new("C04", "panic", &s, &crate::host::norm_msg(&m)).with("Story::new".into(), "Ok or Err".into(), "panic".into()));
            return res;
        }
        Err(Res::Fuel) => {
            res.discard = Some("fuel".into());
            return res;
        }
        Err(_) => {
            res.discard = Some("construct-err".into());
            return res;
        }
    };
    let mut any_error = false;
    let mut digest_src: Vec<String> = Vec::new();
    // boundaries at which the main story rests in the middle of an expression (operands on the evaluation stack)
    let mut mid_expression: Vec<usize> = Vec::new();
    for (i, op) in case.ops.iter().enumerate() {
        let mark = h.log.borrow().len();
        let r = h.apply(op);
        if h.fuel_out {
            res.discard = Some("fuel".into());
            return res;
        }
        if mid_expression.len() < 3 && matches!(op, Op::Continue | Op::ContinueMax) && h.alive() && h.observe().eval_stack != "[]" {
            mid_expression.push(i + 1);
        }
        digest_src.push(format!("{i}:{}", r.class()));
        match &r {
            Res::Panic(s, m) => {
                res.stats.inc("fault.story_fault.fired");
                if m.contains("zero") {
                    res.stats.inc("fault.zero_site.reached");
                }
                res.nontrivial = true;
                res.fail(Violation::new("C04", "panic", s, &crate::host::norm_msg(m)).with(format!("op {i} {}", op.short()), "Err or handler call".into(), r.brief()));
                return res;
            }
            Res::Err(_, m) => {
                if m.contains("RUNTIME ERROR") || m.contains("Ink had") {
                    any_error = true;
                    res.stats.inc("fault.story_fault.fired");
                    res.nontrivial = true;
                }
            }
            _ => {}
        }
        // events of this op
        let evs: Vec<Ev> = h.log.borrow()[mark..].to_vec();
        let handler_error = evs.iter().any(|e| matches!(e, Ev::Handler { warning: false, .. }));
        if handler_error {
            any_error = true;
            res.stats.inc("fault.story_fault.fired");
            res.nontrivial = true;
        }
        for e in &evs {
            if let Ev::Line { text, .. } = e {
                check_wrap_lines(text, &mut res, &format!("op {i} {}", op.short()));
                if text.contains("wrap|") {
                    res.nontrivial = true;
                }
                if text.contains(" divzero e") || text.contains(" modzero e") {
                    res.stats.inc("fault.zero_site.reached");
                    // the value after the site marker must not have been produced silently
                    let reported = handler_error || r.is_err();
                    if !reported {
                        res.fail(Violation::new("C04", "not-an-error", "divide/modulo by zero", "line delivered without a reported error").with(
                            format!("op {i} {}", op.short()),
                            "Err or handler error".into(),
                            text.clone(),
                        ));
                    }
                }
            }
        }
        if r.is_err() && (format!("{:?}", r).contains("divzero e") || format!("{:?}", r).contains("modzero e")) {
            res.stats.inc("fault.zero_site.reached");
        }
    }
    // zero sites whose line was never delivered because the error ended the continue
    let errs = h.observe().errors;
    if errs.iter().any(|e| e.contains("ivide") || e.contains("zero")) {
        res.stats.inc("fault.zero_site.reached");
    }
    res.stats.mark("distinct_logs", crate::rng::fnv(&digest_src.join("|")));
    res.digest = crate::rng::fnv(&h.log_render().join("\n")) | 1;
    // a host that evaluates a function with too few arguments while the main story rests in the middle of
    // an expression: the function's parameters take the story's operands. Whatever the story does with what
    // is left on the stack afterwards, it must not panic.
    let short_funcs: Vec<String> = super::c16::gen_functions(prog).into_iter().filter(|f| f.1 >= 1).map(|f| f.0).take(2).collect();
    for &p in &mid_expression {
        for f in &short_funcs {
            let Ok(mut x) = Host::new(prog, &case.host) else { continue };
            let mut ok = true;
            for op in &case.ops[..p] {
                let r = x.apply(op);
                if r.is_panic() || x.fuel_out {
                    ok = false;
                    break;
                }
            }
            if !ok || !x.alive() {
                continue;
            }
            res.stats.inc("fault.short_eval_mid_expression.fired");
            let mut script = vec![Op::Eval { name: f.clone(), args: vec![] }];
            script.extend(case.ops[p..].iter().take(4).cloned());
            script.extend([Op::Continue, Op::Choose(0), Op::Continue]);
            for (k, op) in script.iter().enumerate() {
                let r = x.apply(op);
                if x.fuel_out {
                    break;
                }
                if let Res::Panic(st, m) = &r {
                    res.fail(Violation::new("C04", "panic", st, &crate::host::norm_msg(m)).with(
                        format!("after {} op(s): Eval({f}, no arguments) with operands of the main story pending, then step {k} {}", p, op.short()),
                        "Err or handler call".into(),
                        r.brief(),
                    ));
                    break;
                }
            }
        }
    }
    // recovery: after any reported error a reset makes the story play like a fresh one
    if any_error && h.alive() {
        match h.apply(&Op::Reset) {
            Res::Ok(_) => {
                let cfg = HostCfg { handler: h.handler, fallbacks: h.fallbacks, bindings: h.binds.clone(), observers: h.regs.clone(), ext_ret: case.host.ext_ret };
                if let Ok(mut y) = Host::new(prog, &cfg) {
                    let mut compared = 0;
                    let ver_warning = prog.info.ink_version != 21;
                    let skip = move |f: &str| ver_warning && f == "warnings";
                    let d = match compare_now(&mut y, &mut h, 0, "Reset", &skip) {
                        Some(d) => Some(d),
                        None => match lockstep(&mut y, &mut h, &tail, &skip, &mut compared) {
                            Lock::Diverged(d) => Some(d),
                            _ => None,
                        },
                    };
                    res.stats.inc("fault.reset_after_error.fired");
                    if let Some(d) = d {
                        res.fail(Violation::new("C04", &format!("reset-divergence:{}", super::c17::field_class(&d.field)), "reset_state after error", &d.field).with(
                            format!("reset after the history, tail step {} ({})", d.step, d.op),
                            d.exp,
                            d.act,
                        ));
                    }
                }
            }
            Res::Panic(s, m) => {
                res.fail(Violation::new("C04", "panic", &s, &crate::host::norm_msg(&m)).with("reset_state after error".into(), "Ok".into(), "panic".into()));
            }
            Res::Fuel => {
                res.discard = Some("fuel".into());
            }
            other => {
                res.fail(Violation::new("C04", "reset-failed", "reset_state", &other.brief().chars().take(80).collect::<String>()).with("reset_state after error".into(), "Ok".into(), other.brief()));
            }
        }
    }
    res
}
