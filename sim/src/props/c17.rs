//! C17 - resetting a story is equivalent to constructing it afresh.
use serde_json::json;

use super::*;
use crate::corpus::Corpus;
use crate::engine::{CaseResult, PropertyDef, Tier};
use crate::rng::Rng;
use crate::script::{ScriptCfg, gen_script, gen_tail};

pub static DEF: PropertyDef = PropertyDef {
    id: "C17",
    level: "exploration",
    rule: "program (corpus both compilers + generator) x seeded host history (continue/choose/flows/jumps/evals/setvars/observers/save+load/crash-restore); \
           for EVERY prefix of the history a reset_state is injected and the instance is compared in lockstep (full observation: text, tags, choices, errors, \
           variables, visit counts, turn index, flows, seed) with a freshly constructed instance over a seeded continuation, including the peer event logs \
           (observers, externals, handler still attached); jump-with-reset is checked at every prefix too. Non-trivial = the state before the reset differed from the \
           initial state and at least one post-reset step was compared; distinct = by hash of (program, history prefix).",
    assumptions: &[
        "story seed supplied through the guarded seed hook so that both sides share it",
        "programs whose inkVersion differs from the engine's are excluded (their constructor-time warning is not part of reset)",
    ],
    runs_quick: 5000,
    runs_thorough: 60000,
    exhaustive_note: "reset injected at every prefix of each sampled history",
    generate,
    execute,
    must_hit: &["fault.reset.fired_nontrivial"],
    timeout_s: 30,
    hang_class: None,
    sub_builds: &[],
    stack_mb: 64,
};

fn generate(corpus: &Corpus, tier: Tier, run: u64, rng: &mut Rng) -> Option<Case> {
    let prog = super::pick_program(corpus, rng, &super::GenProfile::general())?;
    if prog.info.ink_version != 21 {
        return None;
    }
    let beats = match tier {
        Tier::Quick => 2 + rng.below(4),
        Tier::Thorough => 2 + rng.below(7),
    };
    let cfg = ScriptCfg {
        beats,
        flows: rng.chance(1, 3),
        jumps: rng.chance(1, 3),
        evals: rng.chance(1, 4),
        setvars: rng.chance(1, 2),
        observers: rng.chance(1, 2),
        saves: rng.chance(1, 3),
        resets: rng.chance(1, 6),
        continue_max: rng.chance(1, 2),
        jump_functions: false,
        eval_any_knot: false,
    };
    let mut ops = gen_script(rng, &prog, &cfg);
    crate::script::sprinkle_binding_changes(rng, &prog, &mut ops);
    let mut tail = gen_tail(rng, 3);
    if !prog.info.globals.is_empty() && rng.chance(1, 2) {
        let g = rng.pick(&prog.info.globals).clone();
        tail.insert(rng.below(tail.len()), Op::SetVar { name: g, val: crate::script::rand_val(rng) });
    }
    let mut host = super::default_host(&prog, rng);
    if !host.bindings.is_empty() && !ops.is_empty() && rng.chance(2, 3) {
        // one external left to its Ink fallback, and the permission for fallbacks withdrawn somewhere in the
        // history: a fresh story refuses at its first continue, so a reset one must too
        host.fallbacks = true;
        let k = rng.below(host.bindings.len());
        host.bindings.remove(k);
        let at = rng.below(ops.len() + 1);
        ops.insert(at, Op::SetFallbacks(false));
        if rng.chance(1, 3) {
            let at2 = at + 1 + rng.below(ops.len() - at);
            ops.insert(at2, Op::SetFallbacks(true));
        }
    }
    Some(Case {
        prop: "C17".into(),
        run,
        host,
        ops,
        params: json!({"tail": tail}),
        hash_seed: rng.next_u64(),
        story_seed: rng.below(100) as i32,
        fuel: 400_000,
        program: prog,
    })
}

fn execute(case: &Case) -> CaseResult {
    let mut res = CaseResult::default();
    let tail: Vec<Op> = serde_json::from_value(case.params["tail"].clone()).unwrap_or_default();
    let prog = &case.program;
    let h = &case.ops;
    if h.iter().any(|o| matches!(o, Op::SetFallbacks(false))) {
        res.stats.inc("probe.c17.fallbacks_withdrawn");
    }
    let initial = match Host::new(prog, &case.host) {
        Ok(mut y) => y.observe(),
        Err(r) => {
            res.discard = Some(format!("construct-{}", r.class().split(' ').next().unwrap_or("")));
            return res;
        }
    };
    let mut last_state: Option<Obs> = None;
    for p in 0..=h.len() {
        let mut x = match Host::new(prog, &case.host) {
            Ok(x) => x,
            Err(_) => break,
        };
        let mut stop = false;
        for op in &h[..p] {
            let r = x.apply(op);
            if r.is_panic() || x.fuel_out {
                stop = true;
                break;
            }
        }
        if stop {
            if x.fuel_out {
                res.discard = Some("fuel".into());
            }
            break;
        }
        let before = x.observe();
        if let Some(l) = &last_state
            && *l == before
            && p > 0
        {
            continue; // the op at p-1 was a no-op: same fault position
        }
        let nontrivial_state = before != initial;
        last_state = Some(before);
        // variant 0: reset_state; variant 1: jump with call-stack reset
        for variant in 0..2 {
            let mut x2;
            let xr: &mut Host = if variant == 0 {
                &mut x
            } else {
                // rebuild the prefix for the jump variant
                x2 = match Host::new(prog, &case.host) {
                    Ok(x) => x,
                    Err(_) => break,
                };
                let mut bad = false;
                for op in &h[..p] {
                    let r = x2.apply(op);
                    if r.is_panic() || x2.fuel_out {
                        bad = true;
                        break;
                    }
                }
                if bad {
                    break;
                }
                &mut x2
            };
            if variant == 0 {
                res.stats.inc("fault.reset.planned");
                let r = xr.apply(&Op::Reset);
                match r {
                    Res::Ok(_) => {}
                    Res::Fuel => {
                        res.discard = Some("fuel".into());
                        return res;
                    }
                    other => {
                        let (class, site) = match &other {
                            Res::Panic(s, _) => ("panic".to_string(), s.clone()),
                            _ => ("reset-failed".to_string(), "reset_state".to_string()),
                        };
                        res.fail(Violation::new("C17", &class, &site, &other.brief()).with(
                            format!("prefix {p}"),
                            "Ok".into(),
                            other.brief(),
                        ));
                        continue;
                    }
                }
                let cfg = HostCfg {
                    handler: xr.handler,
                    fallbacks: xr.fallbacks,
                    bindings: xr.binds.clone(),
                    observers: xr.regs.clone(),
                    ext_ret: case.host.ext_ret,
                };
                let mut y = match Host::new(prog, &cfg) {
                    Ok(y) => y,
                    Err(_) => break,
                };
                let log_from_x = xr.log.borrow().len();
                let log_from_y = y.log.borrow().len();
                let mut compared = 0u64;
                let d = match compare_now(&mut y, xr, 0, "Reset", &no_skip) {
                    Some(d) => Some(d),
                    None => match lockstep(&mut y, xr, &tail, &no_skip, &mut compared) {
                        Lock::Diverged(d) => Some(d),
                        Lock::Stopped(why) => {
                            if why == "fuel" {
                                res.discard = Some("fuel".into());
                                return res;
                            }
                            None
                        }
                        Lock::Same => None,
                    },
                };
                if let Some(d) = d {
                    res.fail(
                        Violation::new("C17", &format!("reset-divergence:{}", field_class(&d.field)), "reset_state", &d.field).with(
                            format!("reset after prefix {p}, then tail step {} ({})", d.step, d.op),
                            d.exp,
                            d.act,
                        ),
                    );
                } else {
                    let ex = peer_events(xr, log_from_x);
                    let ey = peer_events(&y, log_from_y);
                    if ex != ey {
                        let i = ex.iter().zip(ey.iter()).position(|(a, b)| a != b).unwrap_or(ex.len().min(ey.len()));
                        res.fail(Violation::new("C17", "reset-divergence:peers", "reset_state", "peer event log").with(
                            format!("reset after prefix {p}"),
                            ey.get(i).cloned().unwrap_or_else(|| "<end>".into()),
                            ex.get(i).cloned().unwrap_or_else(|| "<end>".into()),
                        ));
                    }
                    if nontrivial_state && compared > 0 {
                        res.stats.inc("fault.reset.fired_nontrivial");
                        res.nontrivial = true;
                        res.stats.mark("distinct_states", last_state.as_ref().unwrap().digest());
                    }
                }
            } else {
                // jump with call-stack reset: variables and counts kept, all frames abandoned
                let target = match prog.info.knots.first() {
                    Some(k) => k.clone(),
                    None => break,
                };
                if prog.info.functions.contains(&target) {
                    break;
                }
                res.stats.inc("fault.jump_reset.planned");
                let before = xr.observe();
                let r = xr.apply(&Op::Jump { path: target.clone(), reset: true, args: vec![] });
                if let Res::Panic(s, m) = &r {
                    res.fail(Violation::new("C17", "panic", s, &crate::host::norm_msg(m)).with(format!("jump-reset after prefix {p}"), "Ok".into(), r.brief()));
                    continue;
                }
                if !matches!(r, Res::Ok(_)) {
                    continue;
                }
                let after = xr.observe();
                // variables unchanged by the jump itself
                if before.vars != after.vars {
                    res.fail(Violation::new("C17", "jump-residue:vars", "choose_path_string", "variables changed by jump").with(
                        format!("jump-reset after prefix {p}"),
                        format!("{:?}", before.vars),
                        format!("{:?}", after.vars),
                    ));
                }
                // one thread, one element, in the save
                if let Ok(s) = xr.save_text() {
                    let j: serde_json::Value = serde_json::from_str(&s).unwrap_or_default();
                    let flow = j["currentFlowName"].as_str().unwrap_or("DEFAULT_FLOW").to_string();
                    let threads = j["flows"][&flow]["callstack"]["threads"].as_array().cloned().unwrap_or_default();
                    let depth = threads.first().and_then(|t| t["callstack"].as_array()).map(|a| a.len()).unwrap_or(0);
                    if threads.len() != 1 || depth != 1 {
                        res.fail(Violation::new("C17", "jump-residue:frames", "choose_path_string", "call stack not flat after jump with reset").with(
                            format!("jump-reset after prefix {p}"),
                            "1 thread / 1 element".into(),
                            format!("{} threads / {} elements", threads.len(), depth),
                        ));
                    }
                    res.stats.inc("fault.jump_reset.fired");
                }
            }
        }
    }
    res.fingerprint = crate::rng::fnv(&format!("{}|{:?}", case.program.name, case.ops)) ^ crate::rng::fnv(&case.program.json);
    res
}

pub fn field_class(f: &str) -> String {
    f.split(':').next().unwrap_or(f).to_string()
}
