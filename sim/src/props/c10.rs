//! C10 - flows are independent except for global variables and counts.
//!
//! Simulated: K clients (flows), each with its own script of host operations,
//! and a scheduler that interleaves them. Every flow must see exactly the
//! transcript it sees when it runs alone, under every interleaving, with
//! crash-restore, switch-away-and-back and flow removal injected.
use serde_json::json;

use super::*;
use crate::corpus::{Corpus, compile_source};
use crate::engine::{CaseResult, PropertyDef, Tier};
use crate::rng::Rng;

pub static DEF: PropertyDef = PropertyDef {
    id: "C10",
    level: "exploration",
    rule: "programs made of K mutually disjoint flow scripts (own knots, globals, lists, temps, tunnels, threads, choices, functions; no TURNS_SINCE/RANDOM/shuffle, which \
           legitimately share the turn index and seed) merged into one story x per-flow host scripts (enter, continue, choose, jump within the flow); in half of the cases one participant is the default flow itself, \
           so that it plays on right after the current named flow was removed. Reference = each flow's \
           transcript when run alone on a fresh story. Schedules: ALL interleavings of two flows with up to 4 operations each (<= 70 per program; thorough: up to 6 each, <= 924), \
           seeded interleavings for three flows and longer scripts. Faults injected into the schedules: save + crash-restore at a rotating interleaving point (every point is \
           covered across the schedules of a program), switch-away-and-back pairs, switch_to_default_flow, removal of a finished or of the current other flow. Oracle: per flow, \
           the projection of the interleaved history (result, text, tags, choices, can_continue, the flow's own variables) equals the alone transcript; after a crash-restore all \
           flows continue unchanged. Non-trivial = at least two flows produced text and the schedule really alternated; distinct = hash of (program, schedule, fault).",
    assumptions: &["flows touch disjoint knots and variables by construction (identifier prefixes)", "unhandled errors end the whole story (C13), so flow scripts are error-free or the case is discarded"],
    runs_quick: 3000,
    runs_thorough: 40000,
    exhaustive_note: "all interleavings of two flows with <= 4 (thorough <= 6) operations each, for every sampled program",
    generate,
    execute,
    must_hit: &[
        "schedules.exhaustive",
        "fault.crash_restore.fired",
        "fault.switch_away_and_back.fired",
        "fault.remove_other_flow.fired",
        "fault.remove_current_flow.default_flow_plays_on",
        "flows.switch_with_pending_choices",
        "flows.switch_inside_tunnel_or_function",
        "save.multi_flow",
    ],
    timeout_s: 60,
    hang_class: None,
    sub_builds: &[],
    stack_mb: 64,
};

const FLOWS: &[&str] = &["fa", "fb", "fc"];
/// the default flow as a participant: its script runs in the flow every story starts with
const WITH_DEFAULT: &[&str] = &["df", "fa", "fb"];

/// Switching to a participant: `df` is the default flow.
fn switch_op(name: &str) -> Op {
    if name == "df" { Op::SwitchDefault } else { Op::SwitchFlow(name.to_string()) }
}

fn flow_program(rng: &mut Rng, names: &[&str]) -> Option<Program> {
    let mut decls = String::new();
    let mut bodies = String::new();
    for f in names.iter() {
        let mut g = crate::inkgen::GenCfg::general();
        g.swarm(rng);
        g.prefix = format!("{f}_");
        g.turns = false;
        g.random = false;
        g.shuffles = false;
        g.externals = false;
        g.loops = false;
        g.choices = true;
        g.knots = 2 + rng.below(2);
        g.temps = true;
        g.tunnels = rng.chance(2, 3);
        let src = crate::inkgen::render(rng, &g);
        let cut = src.find("\n=== ").map(|i| i + 1).unwrap_or(src.len());
        let (head, body) = src.split_at(cut);
        for l in head.lines() {
            let t = l.trim_start();
            if t.starts_with("VAR ") || t.starts_with("CONST ") || t.starts_with("LIST ") {
                decls.push_str(l);
                decls.push('\n');
            }
        }
        bodies.push_str(body);
        bodies.push('\n');
    }
    let src = format!("{decls}root line of the default flow\n-> DONE\n\n{bodies}");
    match compile_source(&src, None) {
        Ok(json) => Program::from_json("generated-flows", &format!("flows-{:08x}", crate::rng::fnv(&src) as u32), Some(src), json),
        Err(_) => None,
    }
}

fn flow_script(rng: &mut Rng, flow: &str, n: usize, prog: &Program) -> Vec<Op> {
    let mut ops = vec![Op::Jump { path: format!("{flow}_k0"), reset: false, args: vec![] }];
    let knots: Vec<String> = prog.info.knots.iter().filter(|k| k.starts_with(&format!("{flow}_k"))).cloned().collect();
    while ops.len() < n {
        match rng.below(10) {
            0..=5 => ops.push(Op::Continue),
            6..=8 => ops.push(Op::Choose(rng.below(4) as u32)),
            _ => {
                if !knots.is_empty() {
                    ops.push(Op::Jump { path: rng.pick(&knots).clone(), reset: rng.chance(1, 2), args: vec![] });
                } else {
                    ops.push(Op::Continue);
                }
            }
        }
    }
    ops
}

fn generate(_corpus: &Corpus, tier: Tier, run: u64, rng: &mut Rng) -> Option<Case> {
    let three = rng.chance(1, 4);
    let k = if three { 3 } else { 2 };
    // in half of the cases one of the participants is the default flow itself
    let names: Vec<&str> = if rng.chance(1, 2) { WITH_DEFAULT.iter().take(k).copied().collect() } else { FLOWS.iter().take(k).copied().collect() };
    let prog = flow_program(rng, &names)?;
    let per = if three {
        3 + rng.below(4)
    } else {
        match tier {
            Tier::Quick => 3 + rng.below(2),
            Tier::Thorough => 3 + rng.below(4),
        }
    };
    // the scripts of all flows in `ops`, each introduced by a SwitchFlow marker
    let mut ops = Vec::new();
    for f in names.iter() {
        ops.push(Op::SwitchFlow(f.to_string()));
        ops.extend(flow_script(rng, f, per, &prog));
    }
    let seeds: Vec<u64> = (0..40).map(|_| rng.next_u64()).collect();
    Some(Case {
        prop: "C10".into(),
        run,
        host: HostCfg { handler: false, fallbacks: true, bindings: vec![], observers: vec![], ext_ret: 0 },
        ops,
        params: json!({"exhaustive": !three, "schedule_seeds": seeds}),
        hash_seed: rng.next_u64(),
        story_seed: rng.below(100) as i32,
        fuel: 2_000_000,
        program: prog,
    })
}

#[derive(Clone, Debug, PartialEq)]
struct FlowObs {
    res: String,
    can_continue: bool,
    text: String,
    tags: String,
    choices: Vec<String>,
    vars: Vec<(String, String)>,
    visits: Vec<(String, String)>,
}

fn flow_obs(h: &mut Host, flow: &str, res: &Res) -> FlowObs {
    let o = h.observe();
    let pre = format!("{flow}_");
    FlowObs {
        res: res.class_kind(),
        can_continue: o.can_continue,
        text: o.text,
        tags: o.tags,
        choices: o.choices,
        vars: o.vars.into_iter().filter(|v| v.0.starts_with(&pre)).collect(),
        visits: o.visits.into_iter().filter(|v| v.0.starts_with(&pre)).collect(),
    }
}

fn first_diff(a: &FlowObs, b: &FlowObs) -> Option<(String, String, String)> {
    macro_rules! c {
        ($n:expr, $x:expr, $y:expr) => {
            if $x != $y {
                return Some(($n.to_string(), format!("{:?}", $x), format!("{:?}", $y)));
            }
        };
    }
    c!("result", a.res, b.res);
    c!("can_continue", a.can_continue, b.can_continue);
    c!("text", a.text, b.text);
    c!("tags", a.tags, b.tags);
    c!("choices", a.choices, b.choices);
    c!("vars", a.vars, b.vars);
    c!("visits", a.visits, b.visits);
    None
}

/// all interleavings of `a` x's and `b` y's as strings over {0,1}
fn interleavings(a: usize, b: usize) -> Vec<Vec<u8>> {
    fn rec(a: usize, b: usize, cur: &mut Vec<u8>, out: &mut Vec<Vec<u8>>) {
        if a == 0 && b == 0 {
            out.push(cur.clone());
            return;
        }
        if a > 0 {
            cur.push(0);
            rec(a - 1, b, cur, out);
            cur.pop();
        }
        if b > 0 {
            cur.push(1);
            rec(a, b - 1, cur, out);
            cur.pop();
        }
    }
    let mut out = Vec::new();
    rec(a, b, &mut Vec::new(), &mut out);
    out
}

fn execute(case: &Case) -> CaseResult {
    let mut res = CaseResult::default();
    let prog = &case.program;
    res.fingerprint = crate::rng::fnv(&format!("{}|{:?}", prog.name, case.ops)) ^ crate::rng::fnv(&prog.json);
    // split the scripts
    let mut scripts: Vec<(String, Vec<Op>)> = Vec::new();
    for op in &case.ops {
        match op {
            Op::SwitchFlow(f) => scripts.push((f.clone(), Vec::new())),
            other => {
                if let Some(l) = scripts.last_mut() {
                    l.1.push(other.clone());
                }
            }
        }
    }
    scripts.retain(|s| !s.1.is_empty());
    if scripts.len() < 2 {
        res.discard = Some("fewer-than-two-flows".into());
        return res;
    }
    // ---- reference: each flow alone
    let mut alone: Vec<Vec<FlowObs>> = Vec::new();
    for (f, ops) in &scripts {
        let mut h = match Host::new(prog, &case.host) {
            Ok(h) => h,
            Err(_) => {
                res.discard = Some("construct".into());
                return res;
            }
        };
        h.apply(&switch_op(f));
        let mut t = Vec::new();
        for op in ops {
            let r = h.apply(op);
            if h.fuel_out {
                res.discard = Some("fuel".into());
                return res;
            }
            if r.is_panic() {
                res.discard = Some("reference-panic".into());
                return res;
            }
            if let Res::Err(_, m) = &r
                && (m.contains("Ink had") || m.contains("RUNTIME"))
            {
                // an unhandled error halts the whole story: not an error-free flow script
                res.discard = Some("flow-script-raises-error".into());
                return res;
            }
            t.push(flow_obs(&mut h, f, &r));
        }
        if !h.observe().errors.is_empty() {
            res.discard = Some("flow-script-raises-error".into());
            return res;
        }
        alone.push(t);
    }
    let texts = alone.iter().filter(|t| t.iter().any(|o| !o.text.is_empty())).count();

    // ---- schedules
    let exhaustive = case.params["exhaustive"].as_bool().unwrap_or(false) && scripts.len() == 2;
    let mut schedules: Vec<Vec<u8>> = Vec::new();
    if exhaustive && scripts[0].1.len() <= 6 && scripts[1].1.len() <= 6 {
        schedules = interleavings(scripts[0].1.len(), scripts[1].1.len());
        res.stats.inc("schedules.exhaustive");
    } else {
        let seeds: Vec<u64> = serde_json::from_value(case.params["schedule_seeds"].clone()).unwrap_or_default();
        for sd in seeds {
            let mut r = Rng::new(sd);
            let mut left: Vec<usize> = scripts.iter().map(|s| s.1.len()).collect();
            let mut sch = Vec::new();
            while left.iter().any(|l| *l > 0) {
                let avail: Vec<usize> = (0..left.len()).filter(|i| left[*i] > 0).collect();
                let pick = *r.pick(&avail);
                left[pick] -= 1;
                sch.push(pick as u8);
            }
            schedules.push(sch);
        }
    }
    let only_schedule = case.params.get("only_schedule").and_then(|s| s.as_str()).map(|s| s.to_string());

    for (si, sch) in schedules.iter().enumerate() {
        let sch_str: String = sch.iter().map(|b| (b'a' + *b) as char).collect();
        if let Some(o) = &only_schedule
            && *o != sch_str
        {
            continue;
        }
        res.stats.inc("schedules.run");
        // which fault this schedule carries (rotating, so that every point of every program is hit)
        let fault_kind = si % 5; // 0 none, 1 crash-restore, 2 away-and-back, 3 switch-to-default, 4 remove other
        let fault_pos = (si / 5) % (sch.len() + 1);
        let mut h = match Host::new(prog, &case.host) {
            Ok(h) => h,
            Err(_) => return res,
        };
        let mut next: Vec<usize> = vec![0; scripts.len()];
        let mut current: Option<usize> = None;
        let mut alternations = 0;
        let mut fault_done = false;
        let mut removed: Vec<usize> = Vec::new();
        let mut failed = false;
        for (step, &who) in sch.iter().enumerate() {
            let who = who as usize;
            // ---- a second crash two steps after the first one (a save of a loaded multi-flow state)
            if fault_done && fault_kind == 1 && step == fault_pos + 2 && (si / 5) % 2 == 0 {
                let r1 = h.apply(&Op::Save(1));
                let r2 = h.apply(&Op::CrashRestore(1));
                if matches!(r1, Res::Ok(_)) && matches!(r2, Res::Ok(_)) {
                    res.stats.inc("fault.second_crash_restore.fired");
                } else if let Res::Panic(s, m) = &r2 {
                    res.fail(Violation::new("C10", "panic", s, &crate::host::norm_msg(m)).with(format!("schedule {sch_str}, second crash-restore before step {step}"), "Ok".into(), r2.brief()));
                    failed = true;
                    break;
                }
            }
            // ---- fault injection point
            if !fault_done && step == fault_pos && fault_kind != 0 {
                fault_done = true;
                match fault_kind {
                    1 => {
                        // the host process crashes: only the save survives
                        let r1 = h.apply(&Op::Save(0));
                        if let Some(s) = h.slots.get(&0).cloned() {
                            super::c02::save_shape(&mut res.stats, &s);
                        }
                        let r2 = h.apply(&Op::CrashRestore(0));
                        if let Res::Panic(s, m) = &r2 {
                            res.fail(Violation::new("C10", "panic", s, &crate::host::norm_msg(m)).with(format!("schedule {sch_str}, crash-restore before step {step}"), "Ok".into(), r2.brief()));
                            failed = true;
                            break;
                        }
                        if matches!(r1, Res::Ok(_)) && matches!(r2, Res::Ok(_)) {
                            res.stats.inc("fault.crash_restore.fired");
                        } else {
                            res.fail(Violation::new("C10", "restore-failed", "save_state/load_state", &r2.brief().chars().take(80).collect::<String>()).with(
                                format!("schedule {sch_str}, crash-restore before step {step}"),
                                "Ok".into(),
                                format!("{} / {}", r1.brief(), r2.brief()),
                            ));
                            failed = true;
                            break;
                        }
                    }
                    2 => {
                        // switch away and back is a no-op
                        if let Some(c) = current {
                            let other = (c + 1) % scripts.len();
                            h.apply(&switch_op(&scripts[other].0));
                            h.apply(&switch_op(&scripts[c].0));
                            res.stats.inc("fault.switch_away_and_back.fired");
                        }
                    }
                    3 => {
                        h.apply(&Op::SwitchDefault);
                        current = scripts.iter().position(|s| s.0 == "df");
                        res.stats.inc("fault.switch_to_default.fired");
                    }
                    _ => {
                        // remove a flow whose script is finished (it must not disturb the others)
                        if let Some(done) = (0..scripts.len()).find(|i| next[*i] == scripts[*i].1.len() && next[*i] > 0 && !removed.contains(i) && scripts[*i].0 != "df") {
                            let was_current = current == Some(done);
                            let r = h.apply(&Op::RemoveFlow(scripts[done].0.clone()));
                            if let Res::Panic(s, m) = &r {
                                res.fail(Violation::new("C10", "panic", s, &crate::host::norm_msg(m)).with(format!("schedule {sch_str}, remove_flow before step {step}"), "Ok".into(), r.brief()));
                                failed = true;
                                break;
                            }
                            if matches!(r, Res::Ok(_)) {
                                removed.push(done);
                                res.stats.inc("fault.remove_other_flow.fired");
                                if was_current {
                                    // the story is back in the default flow
                                    current = scripts.iter().position(|s| s.0 == "df");
                                    res.stats.inc("fault.remove_current_flow.fired");
                                    if current.is_some() {
                                        res.stats.inc("fault.remove_current_flow.default_flow_plays_on");
                                    }
                                }
                            }
                        }
                    }
                }
                if !h.alive() {
                    break;
                }
            }
            // ---- the scheduled operation
            if current != Some(who) {
                if current.is_some() {
                    alternations += 1;
                    let o = h.observe();
                    if !o.choices.is_empty() {
                        res.stats.inc("flows.switch_with_pending_choices");
                    }
                    if let Ok(s) = h.save_text()
                        && (s.contains("\"type\":1") || s.contains("\"type\":2"))
                    {
                        res.stats.inc("flows.switch_inside_tunnel_or_function");
                    }
                }
                let r = h.apply(&switch_op(&scripts[who].0));
                if let Res::Panic(s, m) = &r {
                    res.fail(Violation::new("C10", "panic", s, &crate::host::norm_msg(m)).with(format!("schedule {sch_str}, switch_flow at step {step}"), "Ok".into(), r.brief()));
                    failed = true;
                    break;
                }
                current = Some(who);
            }
            let op = &scripts[who].1[next[who]];
            let r = h.apply(op);
            if h.fuel_out {
                res.discard = Some("fuel".into());
                return res;
            }
            if let Res::Panic(s, m) = &r {
                res.fail(Violation::new("C10", "panic", s, &crate::host::norm_msg(m)).with(format!("schedule {sch_str}, step {step}: flow {} {}", scripts[who].0, op.short()), "as alone".into(), r.brief()));
                failed = true;
                break;
            }
            let got = flow_obs(&mut h, &scripts[who].0, &r);
            let want = &alone[who][next[who]];
            if let Some((field, e, a)) = first_diff(want, &got) {
                let fault = match (fault_done, fault_kind) {
                    (true, 1) => format!("crash-restore before step {fault_pos}"),
                    (true, 2) => format!("switch away and back before step {fault_pos}"),
                    (true, 3) => format!("switch_to_default_flow before step {fault_pos}"),
                    (true, 4) => format!("remove_flow before step {fault_pos}"),
                    _ => "no fault".to_string(),
                };
                let class = if fault_done && fault_kind == 1 { format!("restore-divergence:{field}") } else { format!("flow-interference:{field}") };
                res.fail(Violation::new("C10", &class, &format!("flow {}", scripts[who].0), &field).with(
                    format!("schedule {sch_str} ({fault}), step {step}: flow {} op #{} {}", scripts[who].0, next[who], op.short()),
                    e,
                    a,
                ));
                failed = true;
                break;
            }
            next[who] += 1;
        }
        if !failed && alternations >= 1 && texts >= 2 {
            res.nontrivial = true;
            res.stats.mark("distinct_schedules", crate::rng::fnv(&format!("{}|{}|{}|{}", prog.name, sch_str, fault_kind, fault_pos)));
        }
        if res.violations.len() >= 3 {
            break;
        }
    }
    res
}
