//! C16 - evaluating an Ink function from the host does not disturb the story.
use serde_json::json;

use super::inject::*;
use super::*;
use crate::corpus::Corpus;
use crate::engine::{CaseResult, PropertyDef, Tier};
use crate::rng::Rng;
use crate::script::{ScriptCfg, gen_script, gen_tail};

pub static DEF: PropertyDef = PropertyDef {
    id: "C16",
    level: "fault_enumeration",
    rule: "generated programs with pure value/text functions (multi-line output, nested calls, temps, no RANDOM, no global writes) x seeded host history (incl. flows, \
           saves, observers); an evaluate_function call (each function of the program, int/float/bool arguments) is injected at EVERY distinct boundary; it must succeed, \
           the value of a non-printing function must equal what the story itself prints for the same call in a copy of the state (probe knot, int / bool / void results), a second identical call must return the same value and text, pending text/tags/choices must be unchanged, and the run is compared in lockstep with the \
           uninjected history (everything except visit/turn counts of the evaluated function itself and functions it calls), plus peer events. \
           Non-trivial = the evaluation succeeded at a boundary whose state differs from the initial one or has pending text/choices, and at least one later op was compared.",
    assumptions: &["functions are pure by construction of the generator (no assignment to globals, no RANDOM, no externals inside functions)"],
    runs_quick: 3600,
    runs_thorough: 50000,
    exhaustive_note: "every function of the program x every distinct boundary of each sampled history",
    generate,
    execute,
    must_hit: &["fault.host_eval.fired", "fault.host_eval.with_pending_choices", "fault.host_eval.with_pending_text", "fault.host_eval.text_function", "fault.host_eval.inside_forked_thread", "fault.host_eval.inside_tunnel", "fault.host_eval.fallback_choice_pending_mid_text", "fault.host_eval.value_compared_with_ink"],
    timeout_s: 30,
    hang_class: None,
    sub_builds: &[],
    stack_mb: 64,
};

fn generate(_corpus: &Corpus, tier: Tier, run: u64, rng: &mut Rng) -> Option<Case> {
    let mut g = crate::inkgen::GenCfg::general();
    g.swarm(rng);
    g.functions = true;
    g.threads = rng.chance(2, 3);
    g.tunnels = rng.chance(2, 3);
    g.random = false;
    g.shuffles = false;
    g.externals = false;
    let prog = crate::inkgen::generate(rng, &g)?;
    let beats = match tier {
        Tier::Quick => 2 + rng.below(4),
        Tier::Thorough => 2 + rng.below(7),
    };
    let cfg = ScriptCfg {
        beats,
        flows: rng.chance(1, 3),
        jumps: rng.chance(1, 5),
        evals: false,
        // host assignments could give a global a type the function's arithmetic does not accept
        setvars: false,
        observers: rng.chance(1, 2),
        saves: rng.chance(1, 4),
        resets: false,
        continue_max: rng.chance(1, 4),
        jump_functions: false,
        eval_any_knot: false,
    };
    let mut ops = gen_script(rng, &prog, &cfg);
    ops.extend(gen_tail(rng, 2));
    let host = default_host(&prog, rng);
    // argument values for each function (by index)
    let argsets: Vec<Vec<Val>> = (0..4)
        .map(|_| {
            (0..3)
                .map(|_| match rng.below(5) {
                    0 => Val::Bool(rng.chance(1, 2)),
                    1 => Val::Float(*rng.pick(&[0.5, 2.0, -1.25])),
                    _ => Val::Int(rng.range(-3, 9) as i32),
                })
                .collect()
        })
        .collect();
    // a probe knot per function: the story itself calls the function with the arguments the host will pass,
    // so that what evaluate_function returns can be compared with what Ink computes (unreachable otherwise)
    let mut prog = prog;
    if let Some(src) = prog.source.clone() {
        let mut ext = src.clone();
        for (fi, f) in gen_functions(&prog).iter().enumerate() {
            let args: Vec<String> = argsets[fi % argsets.len()][..f.1.min(3)]
                .iter()
                .map(|a| match a {
                    Val::Bool(b) => b.to_string(),
                    Val::Int(n) => n.to_string(),
                    Val::Float(x) => format!("{x:?}"),
                    Val::Str(t) => format!("\"{t}\""),
                })
                .collect();
            ext.push_str(&format!("\n=== zzprobe_{} ===\n[{{{}({})}}]\n-> DONE\n", f.0, f.0, args.join(", ")));
        }
        if let Ok(json) = crate::corpus::compile_source(&ext, None)
            && let Some(p2) = Program::from_json("generated", &prog.name, Some(ext), json)
        {
            prog = p2;
        }
    }
    Some(Case {
        prop: "C16".into(),
        run,
        host,
        ops,
        params: json!({"args": argsets}),
        hash_seed: rng.next_u64(),
        story_seed: rng.below(100) as i32,
        fuel: 900_000,
        program: prog,
    })
}

/// (name, argc) of the generator's own functions, read from the source.
pub fn gen_functions(prog: &Program) -> Vec<(String, usize)> {
    let mut v = Vec::new();
    if let Some(src) = &prog.source {
        for l in src.lines() {
            if let Some(rest) = l.trim().strip_prefix("=== function fn") {
                let name: String = format!("fn{}", rest.chars().take_while(|c| *c != '(').collect::<String>());
                let inside = rest.split('(').nth(1).unwrap_or("").split(')').next().unwrap_or("");
                if inside.contains("ref ") {
                    continue; // assigns through its parameter: not a pure function
                }
                let argc = if inside.trim().is_empty() { 0 } else { inside.split(',').count() };
                v.push((name, argc));
            }
        }
    }
    v
}

/// What the story prints for `[{f(args)}]` (its probe knot) in a copy of the saved state: the value between the brackets.
fn ink_value(case: &Case, save: &str, f: &str) -> Option<String> {
    if !case.program.info.knots.iter().any(|k| k == &format!("zzprobe_{f}")) {
        return None;
    }
    let cfg = HostCfg { handler: false, observers: vec![], ..case.host.clone() };
    let mut z = Host::new(&case.program, &cfg).ok()?;
    if !matches!(z.load_text(save), Res::Ok(_)) {
        return None;
    }
    if !matches!(z.apply(&Op::Jump { path: format!("zzprobe_{f}"), reset: true, args: vec![] }), Res::Ok(_)) {
        return None;
    }
    if !matches!(z.apply(&Op::Continue), Res::Ok(_)) {
        return None;
    }
    let log = z.log.borrow();
    let text = log.iter().rev().find_map(|e| match e {
        crate::host::Ev::Line { text, .. } => Some(text.clone()),
        _ => None,
    })?;
    let t = text.trim();
    Some(t.strip_prefix('[')?.strip_suffix(']')?.to_string())
}

fn execute(case: &Case) -> CaseResult {
    let mut res = CaseResult::default();
    res.fingerprint = crate::rng::fnv(&format!("{}|{:?}", case.program.name, case.ops)) ^ crate::rng::fnv(&case.program.json);
    let funcs = gen_functions(&case.program);
    if funcs.is_empty() {
        res.discard = Some("no-function".into());
        return res;
    }
    let argsets: Vec<Vec<Val>> = serde_json::from_value(case.params["args"].clone()).unwrap_or_default();
    let r = match reference(case, &case.ops) {
        Ok(r) => r,
        Err(e) => {
            note_ref_err(&mut res, e);
            return res;
        }
    };
    let fn_names: Vec<String> = funcs.iter().map(|f| f.0.clone()).collect();
    let skip = move |f: &str| -> bool {
        if f == "visit_counts" || f == "turn_indices" {
            return true;
        }
        if let Some(p) = f.strip_prefix("visits:") {
            let head = p.split('.').next().unwrap_or("");
            return fn_names.iter().any(|n| n == head);
        }
        false
    };
    let prints: Vec<bool> = funcs
        .iter()
        .map(|f| {
            let src = case.program.source.as_deref().unwrap_or("");
            let start = src.find(&format!("=== function {}(", f.0)).unwrap_or(0);
            let body = &src[start..];
            let end = body.find("\n===").unwrap_or(body.len());
            body[..end].contains(" ftext")
        })
        .collect();
    // call-stack shape at every boundary (threads alive, inside a tunnel), from the save text
    let mut shapes: std::collections::BTreeMap<usize, (bool, bool, bool)> = std::collections::BTreeMap::new();
    // the state at (up to four) boundaries, as save text: a copy of the story to ask Ink itself for a function's value
    let mut saves_at: std::collections::BTreeMap<usize, String> = std::collections::BTreeMap::new();
    if let Ok(mut probe) = Host::new(&case.program, &case.host) {
        for p in 0..=r.ops.len() {
            if let Ok(s) = probe.save_text() {
                if saves_at.len() < 4 && r.distinct.contains(&p) {
                    saves_at.insert(p, s.clone());
                }
                let j: serde_json::Value = serde_json::from_str(&s).unwrap_or_default();
                let flow = j["currentFlowName"].as_str().unwrap_or("DEFAULT_FLOW").to_string();
                let threads = j["flows"][&flow]["callstack"]["threads"].as_array().cloned().unwrap_or_default();
                let in_tunnel = threads.iter().any(|t| t["callstack"].as_array().map(|a| a.iter().any(|e| e["type"] == 1)).unwrap_or(false));
                // choices in the save that the host is not shown: pending fallback choices
                let saved_choices = j["flows"][&flow]["currentChoices"].as_array().map(|a| a.len()).unwrap_or(0);
                let hidden = saved_choices > probe.choices().len();
                shapes.insert(p, (threads.len() > 1, in_tunnel, hidden && probe.can_continue()));
            }
            if p < r.ops.len() {
                probe.apply(&r.ops[p]);
                if !probe.alive() {
                    break;
                }
            }
        }
    }
    for &p in &r.distinct {
        // an unhandled error stops the story until reset (C13): not a state in which a host evaluates functions
        let st = if p == 0 { &r.initial } else { &r.obs_after[p - 1] };
        if !st.errors.is_empty() {
            continue;
        }
        for (fi, f) in funcs.iter().enumerate() {
            let args: Vec<Val> = argsets.get(fi % argsets.len().max(1)).map(|a| a[..f.1.min(a.len())].to_vec()).unwrap_or_default();
            let ev = Op::Eval { name: f.0.clone(), args };
            // twice in a row: the second result must equal the first
            let faults = [ev.clone(), ev.clone()];
            res.stats.inc("fault.host_eval.planned");
            let inj = Injection { prop: "C16", faults: &faults, expect_err: false, skip: &skip, class_prefix: "leaked-change", either_result: false };
            let out = inject_at(case, &r, p, &inj);
            if out.fuel {
                res.discard = Some("fuel".into());
                return res;
            }
            if let Some(Res::Err(k, m)) = out.results.iter().find(|r| r.is_err()) {
                // the generator's functions are total: a failed evaluation is itself a violation
                res.fail(Violation::new("C16", "eval-failed", "evaluate_function", &format!("{k}: {}", m.chars().take(90).collect::<String>())).with(
                    format!("Eval({}) injected at boundary {p}", f.0),
                    "Ok(value, text)".into(),
                    format!("Err {k}: {m}").chars().take(400).collect(),
                ));
            }
            if out.fired == 2 {
                res.stats.inc("fault.host_eval.fired");
                let st = if p == 0 { &r.initial } else { &r.obs_after[p - 1] };
                if !st.choices.is_empty() {
                    res.stats.inc("fault.host_eval.with_pending_choices");
                }
                if !st.text.is_empty() {
                    res.stats.inc("fault.host_eval.with_pending_text");
                }
                if prints[fi] {
                    res.stats.inc("fault.host_eval.text_function");
                }
                if shapes.get(&p).map(|s| s.0).unwrap_or(false) {
                    res.stats.inc("fault.host_eval.inside_forked_thread");
                }
                if shapes.get(&p).map(|s| s.1).unwrap_or(false) {
                    res.stats.inc("fault.host_eval.inside_tunnel");
                }
                if shapes.get(&p).map(|s| s.2).unwrap_or(false) {
                    res.stats.inc("fault.host_eval.fallback_choice_pending_mid_text");
                }
                if out.compared > 0 {
                    res.nontrivial = true;
                }
                if let (Some(Res::Ok(a)), Some(Res::Ok(b))) = (out.results.first(), out.results.get(1)) {
                    if a != b {
                        res.fail(Violation::new("C16", "eval-not-repeatable", &f.0, "second evaluation differs").with(format!("boundary {p}"), a.clone(), b.clone()));
                    }
                    // the value: what Ink computes for the same call in a copy of this state
                    if !prints[fi]
                        && let Some(save) = saves_at.get(&p)
                        && let Some(got) = a.strip_prefix("ret=").and_then(|x| x.split(" text=").next())
                        && let Some(want) = ink_value(case, save, &f.0)
                    {
                        let comparable = match got.split_once(':') {
                            Some(("i", v)) | Some(("b", v)) => Some(v.to_string()),
                            None if got == "none" => Some(String::new()),
                            _ => None, // floats and strings print in Ink's own formats
                        };
                        // a callee that prints puts its text between the brackets: only a bare value is comparable
                        let bare = want.is_empty() || want == "true" || want == "false" || want.parse::<i64>().is_ok();
                        if let Some(g) = comparable
                            && bare
                        {
                            res.stats.inc("fault.host_eval.value_compared_with_ink");
                            if g != want {
                                res.fail(Violation::new("C16", "eval-wrong-value", "evaluate_function", "the returned value differs from what the story computes for the same call").with(
                                    format!("Eval({}) at boundary {p}", f.0),
                                    want,
                                    got.to_string(),
                                ));
                            }
                        }
                    }
                    if prints[fi] && a.contains("text=\"\"") {
                        res.fail(Violation::new("C16", "eval-text-lost", &f.0, "text function returned no text").with(format!("boundary {p}"), "text".into(), a.clone()));
                    }
                }
            }
            if let Some(mut v) = out.violation {
                // attribute to the function, not to the argument values
                v.site = "evaluate_function".into();
                res.fail(v);
            }
        }
    }
    res
}
