//! C15 - malformed story or save input is rejected with an error, not a crash.
//!
//! Simulated: the disk. Valid documents (compiled stories; saves taken at
//! explored points) are damaged the way storage damages them - torn writes
//! (truncation), bit rot, lost/duplicated bytes - and the way hostile or
//! foreign files look (node deletion / retyping / duplication, numeric
//! extremes, nesting bombs, random bytes, a save of another program).
use serde::{Deserialize, Serialize};
use serde_json::{Value as J, json};

use super::*;
use crate::corpus::Corpus;
use crate::engine::{CaseResult, PropertyDef, Tier};
use crate::rng::Rng;
use crate::script::{ScriptCfg, gen_script, gen_tail};

pub static DEF: PropertyDef = PropertyDef {
    id: "C15",
    level: "fault_enumeration",
    rule: "valid documents = compiled stories (corpus of both compilers, generated programs) and saves taken at the end of seeded histories (threads, flows, lists, temps, \
           pending choices); each case applies a list of damages to one document: truncation (quick: 48 seeded + structural boundaries; thorough: EVERY byte of the document, \
           in slices), single bit flips, byte delete/duplicate, JSON node delete/retype/duplicate/swap (thorough: every node of small documents), numeric extremes \
           (+-2^31, +-2^63, 1e400, -0, fractions), unknown tokens, nesting bombs (10^3..10^6), empty input, random bytes, a save of a different program. \
           Story::new / load_state must return Ok or Err: no panic, no abort (worker death), no hang (watchdog), stack limited to 8 MiB like a main thread; after a failed \
           load_state, reset_state must succeed and the instance must be in lockstep with a fresh one. Both loaders: the run is repeated in the stream-json-parser build. \
           Non-trivial = the damaged document differed from the original and was rejected or loaded without a crash; distinct = hash of (document, damage).",
    assumptions: &["a damaged document that happens to load is not played (the property promises nothing about it)"],
    runs_quick: 5000,
    runs_thorough: 60000,
    exhaustive_note: "thorough: truncation at every byte (sliced over cases) and every JSON node x every node action for small documents",
    generate,
    execute,
    must_hit: &["fault.truncate.fired", "fault.bitflip.fired", "fault.node.fired", "fault.extreme.fired", "fault.nestbomb.fired", "fault.foreign.fired", "fault.save_damage.rejected", "fault.reset_after_failed_load.fired"],
    timeout_s: 30,
    hang_class: Some("hang"),
    sub_builds: &[("release+stream-json-parser", 2500, 20000, false)],
    stack_mb: 8,
};

#[derive(Serialize, Deserialize, Clone, Debug)]
pub enum Damage {
    Truncate(usize),
    BitFlip(usize, u8),
    DelByte(usize),
    DupByte(usize),
    /// (node index in DFS order, action)
    Node(usize, u8),
    /// replace the n-th number with an extreme
    Extreme(usize, u8),
    UnknownToken(usize),
    NestBomb(u32, bool),
    Empty,
    RandomBytes(u64, usize),
    Foreign,
    InsertGarbage(usize, u8),
    /// a saved global whose value is a variable pointer leading back to itself (1) or round a cycle of two (2)
    PointerCycle(usize, u8),
}

fn kind(d: &Damage) -> &'static str {
    match d {
        Damage::Truncate(_) => "truncate",
        Damage::BitFlip(..) => "bitflip",
        Damage::DelByte(_) | Damage::DupByte(_) | Damage::InsertGarbage(..) => "bytes",
        Damage::Node(..) => "node",
        Damage::Extreme(..) => "extreme",
        Damage::UnknownToken(_) => "token",
        Damage::NestBomb(..) => "nestbomb",
        Damage::Empty => "empty",
        Damage::RandomBytes(..) => "random",
        Damage::Foreign => "foreign",
        Damage::PointerCycle(..) => "pointer_cycle",
    }
}

const EXTREMES: &[&str] = &[
    "2147483648", "-2147483649", "9223372036854775807", "-9223372036854775808", "9223372036854775808", "18446744073709551615", "18446744073709551616",
    "-9223372036854775809", "1e400", "-1e400", "-0", "0.5", "-1", "1e-400", "4294967296", "NaN", "1E5", "00", "0x10", "1.", ".5", "--1",
];

fn collect_paths(j: &J, path: &mut Vec<String>, out: &mut Vec<Vec<String>>) {
    out.push(path.clone());
    match j {
        J::Array(a) => {
            for (i, v) in a.iter().enumerate() {
                path.push(i.to_string());
                collect_paths(v, path, out);
                path.pop();
            }
        }
        J::Object(m) => {
            for (k, v) in m {
                path.push(k.clone());
                collect_paths(v, path, out);
                path.pop();
            }
        }
        _ => {}
    }
}

fn get_mut<'a>(j: &'a mut J, path: &[String]) -> Option<&'a mut J> {
    let mut cur = j;
    for p in path {
        cur = match cur {
            J::Array(a) => a.get_mut(p.parse::<usize>().ok()?)?,
            J::Object(m) => m.get_mut(p)?,
            _ => return None,
        };
    }
    Some(cur)
}

pub fn node_count(doc: &str) -> usize {
    match serde_json::from_str::<J>(doc) {
        Ok(j) => {
            let mut out = Vec::new();
            collect_paths(&j, &mut Vec::new(), &mut out);
            out.len()
        }
        Err(_) => 0,
    }
}

fn node_damage(doc: &str, idx: usize, action: u8) -> Option<String> {
    let mut j: J = serde_json::from_str(doc).ok()?;
    let mut paths = Vec::new();
    collect_paths(&j, &mut Vec::new(), &mut paths);
    if paths.len() < 2 {
        return None;
    }
    let p = paths[1 + idx % (paths.len() - 1)].clone();
    let (parent_path, last) = p.split_at(p.len() - 1);
    let last = &last[0];
    match action % 7 {
        0 => {
            // delete
            let parent = get_mut(&mut j, parent_path)?;
            match parent {
                J::Array(a) => {
                    let i = last.parse::<usize>().ok()?;
                    if i < a.len() {
                        a.remove(i);
                    }
                }
                J::Object(m) => {
                    m.shift_remove(last);
                }
                _ => {}
            }
        }
        1 | 2 | 3 => {
            // retype
            let node = get_mut(&mut j, &p)?;
            let new = match (action % 7, &*node) {
                (1, J::Number(_)) => json!("str"),
                (1, J::String(_)) => json!(7),
                (1, J::Array(_)) => json!({}),
                (1, J::Object(_)) => json!([]),
                (1, _) => json!([1, 2]),
                (2, J::Null) => json!(0),
                (2, _) => J::Null,
                (_, J::Bool(_)) => json!("true"),
                (_, J::Array(_)) => json!(3),
                (_, J::Object(_)) => json!("obj"),
                (_, _) => json!(true),
            };
            *node = new;
        }
        4 => {
            // duplicate inside the parent
            let node = get_mut(&mut j, &p)?.clone();
            let parent = get_mut(&mut j, parent_path)?;
            match parent {
                J::Array(a) => a.push(node),
                J::Object(m) => {
                    m.insert(format!("{last}_dup"), node);
                }
                _ => {}
            }
        }
        5 => {
            // swap with the next sibling
            let parent = get_mut(&mut j, parent_path)?;
            if let J::Array(a) = parent {
                let i = last.parse::<usize>().ok()?;
                if i + 1 < a.len() {
                    a.swap(i, i + 1);
                } else if a.len() >= 2 {
                    a.swap(0, i);
                }
            } else if let J::Object(m) = parent {
                // rename the key
                if let Some(v) = m.shift_remove(last) {
                    m.insert(format!("x{last}"), v);
                }
            }
        }
        _ => {
            // empty the container / blank the string / negate the number
            let node = get_mut(&mut j, &p)?;
            let new = match &*node {
                J::Array(_) => json!([]),
                J::Object(_) => json!({}),
                J::String(_) => json!(""),
                J::Number(n) => json!(-(n.as_f64().unwrap_or(1.0)) as i64),
                other => other.clone(),
            };
            *node = new;
        }
    }
    Some(j.to_string())
}

fn number_spans(doc: &str) -> Vec<(usize, usize)> {
    // spans of JSON numbers outside strings
    let b = doc.as_bytes();
    let mut out = Vec::new();
    let mut i = 0;
    let mut in_str = false;
    while i < b.len() {
        let c = b[i];
        if in_str {
            if c == b'\\' {
                i += 2;
                continue;
            }
            if c == b'"' {
                in_str = false;
            }
            i += 1;
            continue;
        }
        if c == b'"' {
            in_str = true;
            i += 1;
            continue;
        }
        if c == b'-' || c.is_ascii_digit() {
            let s = i;
            i += 1;
            while i < b.len() && (b[i].is_ascii_digit() || b[i] == b'.' || b[i] == b'e' || b[i] == b'E' || b[i] == b'+' || b[i] == b'-') {
                i += 1;
            }
            out.push((s, i));
            continue;
        }
        i += 1;
    }
    out
}

pub const FOREIGN_SAVE: &str = r#"{"flows":{"DEFAULT_FLOW":{"callstack":{"threads":[{"callstack":[{"exp":false,"type":0,"temp":{"zz":5},"cPath":"other_knot.0.g-0","idx":3}],"threadIndex":0,"previousContentObject":"other_knot.0.g-0.2"}],"threadCounter":0},"outputStream":["^foreign","\n"],"currentChoices":[{"text":"x","index":0,"originalChoicePath":"other_knot.0.c-0","originalThreadIndex":0,"targetPath":"other_knot.c-0","tags":[]}]}},"currentFlowName":"DEFAULT_FLOW","variablesState":{"unknown_var":{"list":{"Nope.a":1}}},"evalStack":[],"visitCounts":{"other_knot":1},"turnIndices":{},"turnIdx":0,"storySeed":5,"previousRandom":0,"inkSaveVersion":10,"inkFormatVersion":21}"#;

pub fn apply(doc: &str, d: &Damage) -> Option<Vec<u8>> {
    let b = doc.as_bytes();
    let n = b.len();
    match d {
        Damage::Truncate(k) => {
            if n == 0 {
                return None;
            }
            Some(b[..(*k % n)].to_vec())
        }
        Damage::BitFlip(pos, bit) => {
            if n == 0 {
                return None;
            }
            let mut v = b.to_vec();
            v[*pos % n] ^= 1 << (bit % 8);
            Some(v)
        }
        Damage::DelByte(pos) => {
            if n == 0 {
                return None;
            }
            let mut v = b.to_vec();
            v.remove(*pos % n);
            Some(v)
        }
        Damage::DupByte(pos) => {
            if n == 0 {
                return None;
            }
            let mut v = b.to_vec();
            let c = v[*pos % n];
            v.insert(*pos % n, c);
            Some(v)
        }
        Damage::InsertGarbage(pos, c) => {
            let mut v = b.to_vec();
            let p = if n == 0 { 0 } else { *pos % n };
            v.insert(p, *c);
            Some(v)
        }
        Damage::Node(idx, action) => node_damage(doc, *idx, *action).map(|s| s.into_bytes()),
        Damage::Extreme(idx, which) => {
            let spans = number_spans(doc);
            if spans.is_empty() {
                return None;
            }
            let (s, e) = spans[*idx % spans.len()];
            let mut out = String::new();
            out.push_str(&doc[..s]);
            out.push_str(EXTREMES[*which as usize % EXTREMES.len()]);
            out.push_str(&doc[e..]);
            Some(out.into_bytes())
        }
        Damage::UnknownToken(idx) => {
            // replace the n-th string token "xxx" by an unknown one
            let mut j: J = serde_json::from_str(doc).ok()?;
            let mut paths = Vec::new();
            collect_paths(&j, &mut Vec::new(), &mut paths);
            let strs: Vec<Vec<String>> = paths.into_iter().filter(|p| matches!(get_ref(&j, p), Some(J::String(_)))).collect();
            if strs.is_empty() {
                return None;
            }
            let p = strs[*idx % strs.len()].clone();
            let old = get_ref(&j, &p).and_then(|v| v.as_str()).unwrap_or("").to_string();
            let new = match *idx % 7 {
                // a text or command that lost its first character ("^text" -> "text")
                5 => old.chars().skip(1).collect::<String>(),
                // a long unknown token of multi-byte characters at every alignment (error texts that quote or shorten it)
                6 => {
                    let ch = ["\u{e9}", "\u{20ac}", "\u{1F600}"][(*idx / 7) % 3];
                    format!("{}{}", "x".repeat((*idx / 21) % 4), ch.repeat(40))
                }
                k => ["zzUnknownToken", "", "\u{0}", "->->->", "^"][k].to_string(),
            };
            *get_mut(&mut j, &p)? = json!(new);
            Some(j.to_string().into_bytes())
        }
        Damage::NestBomb(depth, obj) => {
            let mut s = String::new();
            if *obj {
                for _ in 0..*depth {
                    s.push_str("{\"a\":");
                }
                s.push('1');
                for _ in 0..*depth {
                    s.push('}');
                }
            } else {
                for _ in 0..*depth {
                    s.push('[');
                }
                for _ in 0..*depth {
                    s.push(']');
                }
            }
            Some(s.into_bytes())
        }
        Damage::Empty => Some(Vec::new()),
        Damage::RandomBytes(seed, len) => {
            let mut r = Rng::new(*seed);
            Some((0..*len).map(|_| r.next_u64() as u8).collect())
        }
        Damage::Foreign => Some(FOREIGN_SAVE.as_bytes().to_vec()),
        Damage::PointerCycle(idx, len) => {
            // well-formed tokens, a meaning no story produces: x -> x, or x -> y -> x (saves only)
            let mut j: J = serde_json::from_str(doc).ok()?;
            // the globals that the save itself mentions are declared ones
            let names: Vec<String> = j.get("variablesState")?.as_object()?.keys().cloned().collect();
            if names.is_empty() {
                return None;
            }
            let a = names[*idx % names.len()].clone();
            let b = names[(*idx / 7 + 1) % names.len()].clone();
            let vars = j.get_mut("variablesState")?.as_object_mut()?;
            if *len <= 1 || a == b {
                vars.insert(a.clone(), json!({"^var": a, "ci": 0}));
            } else {
                vars.insert(a.clone(), json!({"^var": b, "ci": 0}));
                vars.insert(b.clone(), json!({"^var": a, "ci": 0}));
            }
            Some(j.to_string().into_bytes())
        }
    }
}

fn get_ref<'a>(j: &'a J, path: &[String]) -> Option<&'a J> {
    let mut cur = j;
    for p in path {
        cur = match cur {
            J::Array(a) => a.get(p.parse::<usize>().ok()?)?,
            J::Object(m) => m.get(p)?,
            _ => return None,
        };
    }
    Some(cur)
}

fn structural_boundaries(doc: &str) -> Vec<usize> {
    doc.bytes()
        .enumerate()
        .filter(|(_, c)| matches!(c, b'{' | b'}' | b'[' | b']' | b',' | b':' | b'"'))
        .map(|(i, _)| i + 1)
        .collect()
}

fn generate(corpus: &Corpus, tier: Tier, run: u64, rng: &mut Rng) -> Option<Case> {
    let mut prof = super::c02::c02_profile();
    prof.max_json = 20_000;
    let prog = pick_program(corpus, rng, &prof)?;
    let target_save = rng.chance(3, 5);
    let ops = if target_save {
        let cfg = ScriptCfg {
            beats: 1 + rng.below(5),
            flows: rng.chance(1, 2),
            jumps: rng.chance(1, 5),
            evals: false,
            setvars: rng.chance(1, 3),
            observers: false,
            saves: false,
            resets: false,
            continue_max: rng.chance(1, 3),
            jump_functions: false,
        eval_any_knot: false,
        };
        gen_script(rng, &prog, &cfg)
    } else {
        vec![]
    };
    let mut damages: Vec<Damage> = Vec::new();
    let mode = if tier == Tier::Thorough { rng.below(4) } else { 3 };
    let doc_len_hint = prog.json.len().max(400);
    match mode {
        0 => {
            // a slice of "truncation at every byte": 256 consecutive positions
            let start = rng.below(doc_len_hint);
            for k in 0..256 {
                damages.push(Damage::Truncate(start + k));
            }
        }
        1 => {
            // every action on a window of consecutive nodes
            let start = rng.below(4000);
            for k in 0..24 {
                for a in 0..7u8 {
                    damages.push(Damage::Node(start + k, a));
                }
            }
        }
        _ => {
            let n = if tier == Tier::Quick { 56 } else { 96 };
            for _ in 0..n {
                let pos = rng.below(1 << 20);
                damages.push(match rng.below(16) {
                    0 | 1 | 2 => Damage::Truncate(pos),
                    3 | 4 => Damage::BitFlip(pos, rng.below(8) as u8),
                    5 => Damage::DelByte(pos),
                    6 => Damage::DupByte(pos),
                    7 | 8 | 9 | 10 => Damage::Node(pos, rng.below(7) as u8),
                    11 | 12 => Damage::Extreme(pos, rng.below(EXTREMES.len()) as u8),
                    13 => Damage::UnknownToken(pos),
                    14 => Damage::InsertGarbage(pos, *rng.pick(&[b'{', b'"', b'\\', 0u8, 0xffu8, b'[', b','])),
                    _ => match rng.below(5) {
                        0 => Damage::NestBomb(*rng.pick(&[1000u32, 20_000, 200_000, 1_000_000]), rng.chance(1, 2)),
                        1 => Damage::Empty,
                        2 => Damage::RandomBytes(rng.next_u64(), 1 + rng.below(300)),
                        3 => Damage::Foreign,
                        _ => Damage::PointerCycle(rng.below(1000), 1 + rng.below(2) as u8),
                    },
                });
            }
        }
    }
    let tail = gen_tail(rng, 2);
    Some(Case {
        prop: "C15".into(),
        run,
        host: HostCfg { handler: rng.chance(1, 2), fallbacks: true, bindings: prog.info.externals.iter().map(|e| (e.0.clone(), true)).collect(), observers: vec![], ext_ret: 0 },
        ops,
        params: json!({"target": if target_save { "save" } else { "story" }, "damages": damages, "tail": tail, "structural": tier == Tier::Quick && rng.chance(1, 4)}),
        hash_seed: rng.next_u64(),
        story_seed: rng.below(100) as i32,
        fuel: 100_000,
        program: prog,
    })
}

fn execute(case: &Case) -> CaseResult {
    let mut res = CaseResult::default();
    let prog = &case.program;
    let mut damages: Vec<Damage> = serde_json::from_value(case.params["damages"].clone()).unwrap_or_default();
    let tail: Vec<Op> = serde_json::from_value(case.params["tail"].clone()).unwrap_or_default();
    let target_save = case.params["target"].as_str() == Some("save");
    res.fingerprint = crate::rng::fnv(&format!("{}|{:?}|{}", prog.name, case.ops, case.params["damages"])) ^ crate::rng::fnv(&prog.json);

    // the valid document
    let mut base = match Host::new(prog, &case.host) {
        Ok(h) => h,
        Err(r) => {
            res.discard = Some(format!("construct-{}", r.class().split(' ').next().unwrap_or("")));
            return res;
        }
    };
    let doc: String = if target_save {
        for op in &case.ops {
            let r = base.apply(op);
            if base.fuel_out {
                res.discard = Some("fuel".into());
                return res;
            }
            if r.is_panic() {
                break;
            }
        }
        if !base.alive() {
            res.discard = Some("history-panicked".into());
            return res;
        }
        match base.save_text() {
            Ok(s) => s,
            Err(_) => {
                res.discard = Some("save-failed".into());
                return res;
            }
        }
    } else {
        prog.json.clone()
    };
    if case.params["structural"].as_bool() == Some(true) {
        // truncation right after structural characters (quotes, brackets, commas, colons)
        let sb = structural_boundaries(&doc);
        let step = (sb.len() / 64).max(1);
        for b in sb.iter().step_by(step) {
            damages.push(Damage::Truncate(*b));
        }
    }
    let fresh_initial = Host::new(prog, &case.host).ok().map(|mut h| h.observe());

    for (di, d) in damages.iter().enumerate() {
        let bytes = match apply(&doc, d) {
            Some(b) => b,
            None => continue,
        };
        if bytes == doc.as_bytes() {
            continue;
        }
        let k = kind(d);
        res.stats.inc(&format!("fault.{k}.planned"));
        let text = String::from_utf8_lossy(&bytes).to_string();
        let at = format!("damage #{di} {:?} on {} ({} bytes)", d, if target_save { "save" } else { "story" }, doc.len());
        if target_save {
            let mut b = match Host::new(prog, &case.host) {
                Ok(b) => b,
                Err(_) => return res,
            };
            let r = b.load_text(&text);
            match &r {
                Res::Panic(s, m) => {
                    res.fail(Violation::new("C15", "panic", s, &crate::host::norm_msg(m)).with(at, "Ok or Err".into(), r.brief()));
                    continue;
                }
                Res::Fuel => {
                    res.discard = Some("fuel".into());
                    return res;
                }
                Res::Err(..) => {
                    res.stats.inc(&format!("fault.{k}.fired"));
                    res.stats.inc("fault.save_damage.rejected");
                    res.nontrivial = true;
                    res.stats.mark("distinct_damages", crate::rng::fnv_bytes(crate::rng::fnv(&prog.name), &bytes));
                    // recovery: reset, then play like a fresh instance
                    let rr = b.apply(&Op::Reset);
                    match &rr {
                        Res::Ok(_) => {
                            res.stats.inc("fault.reset_after_failed_load.fired");
                            if let (Some(fi), Ok(mut y)) = (&fresh_initial, Host::new(prog, &case.host)) {
                                let ob = b.observe();
                                let skipw = |f: &str| f == "warnings" && prog.info.ink_version != 21;
                                if let Some((f, e, a)) = fi.first_diff(&ob, &skipw) {
                                    res.fail(Violation::new("C15", &format!("reset-divergence:{}", super::c17::field_class(&f)), "reset_state after failed load", &f).with(at.clone(), e, a));
                                } else if di % 8 == 0 {
                                    let mut compared = 0;
                                    if let Lock::Diverged(dv) = lockstep(&mut y, &mut b, &tail, &skipw, &mut compared) {
                                        res.fail(
                                            Violation::new("C15", &format!("reset-divergence:{}", super::c17::field_class(&dv.field)), "reset_state after failed load", &dv.field)
                                                .with(format!("{at}; tail step {} {}", dv.step, dv.op), dv.exp, dv.act),
                                        );
                                    }
                                }
                            }
                        }
                        Res::Panic(s, m) => {
                            res.fail(Violation::new("C15", "panic", s, &crate::host::norm_msg(m)).with(format!("reset_state after failed load: {at}"), "Ok".into(), rr.brief()));
                        }
                        Res::Fuel => {
                            res.discard = Some("fuel".into());
                            return res;
                        }
                        other => {
                            res.fail(Violation::new("C15", "reset-failed", "reset_state after failed load", &other.brief().chars().take(80).collect::<String>()).with(at.clone(), "Ok".into(), other.brief()));
                        }
                    }
                }
                _ => {
                    res.stats.inc(&format!("fault.{k}.fired"));
                    res.stats.inc("fault.save_damage.loaded");
                    res.nontrivial = true;
                }
            }
        } else {
            let mutated = Program { kind: prog.kind.clone(), name: prog.name.clone(), source: None, json: text, info: Default::default() };
            let r = Host::new(&mutated, &HostCfg::default());
            match r {
                Err(Res::Panic(s, m)) => {
                    res.fail(Violation::new("C15", "panic", &s, &crate::host::norm_msg(&m)).with(at, "Ok or Err".into(), "panic".into()));
                }
                Err(Res::Fuel) => {
                    res.stats.inc(&format!("fault.{k}.fired"));
                }
                Err(_) => {
                    res.stats.inc(&format!("fault.{k}.fired"));
                    res.stats.inc("fault.story_damage.rejected");
                    res.nontrivial = true;
                    res.stats.mark("distinct_damages", crate::rng::fnv_bytes(crate::rng::fnv(&prog.name), &bytes));
                }
                Ok(_) => {
                    res.stats.inc(&format!("fault.{k}.fired"));
                    res.stats.inc("fault.story_damage.loaded");
                    res.nontrivial = true;
                }
            }
        }
    }
    res
}
