//! C03 - play is a deterministic function of program, seed and host calls.
//!
//! Simulated: entropy. Every `HashMap`'s iteration order and the story seed
//! come from the getrandom seam, so "another process" is simply another hash
//! seed - and a failure is replayable because both hash seeds are recorded.
use serde_json::json;

use super::inject::peer_strings;
use super::*;
use crate::corpus::{Corpus, compile_source};
use crate::engine::{CaseResult, PropertyDef, Tier};
use crate::host::{canon, run_case_thread};
use crate::rng::{Rng, mix};
use crate::script::{ScriptCfg, gen_script};

pub static DEF: PropertyDef = PropertyDef {
    id: "C03",
    level: "exploration",
    rule: "program (generator weighted to lists whose items share values inside one list and across lists, LIST_MAX/MIN/RANDOM/ALL/INVERT/VALUE, shuffles, RANDOM, many globals; \
           corpus of both compilers) x seeded host history (continue/choose/flows/jumps/assignments/saves) with a fixed story seed. The same case is executed on fresh threads \
           under K different entropy seeds (every HashMap order, every RandomState; K=5 quick, 12 thorough) and twice under the same one; the traces (result of every op, full \
           observation incl. variables, visit counts, canonical save text; line/observer/external events) must be identical, and compiling the program's source under each \
           entropy seed must give byte-identical output. The run is repeated in the dev-profile build and the per-run digests compared. \
           Non-trivial = the program has a list value with >= 2 items or >= 2 flows or >= 2 globals in the save; distinct = hash of program+history.",
    assumptions: &["story seed fixed through the guarded seed hook", "the order in which observers of different variables are notified within one continue is not part of the property"],
    runs_quick: 2000,
    runs_thorough: 60000,
    exhaustive_note: "none (K entropy seeds per sampled case)",
    generate,
    execute,
    must_hit: &["fault.entropy.warm_thread_compared", "fault.entropy.compared", "fault.entropy.list_program", "fault.entropy.compile_compared", "fault.entropy.map_order_differed"],
    timeout_s: 60,
    hang_class: None,
    sub_builds: &[("dev", 600, 10000, true)],
    stack_mb: 64,
};

fn generate(corpus: &Corpus, tier: Tier, run: u64, rng: &mut Rng) -> Option<Case> {
    let mut prof = GenProfile::general();
    prof.generated_pct = 70;
    prof.gcfg.list_ties = true;
    prof.gcfg.const_chains = true;
    prof.gcfg.random = true;
    prof.gcfg.shuffles = true;
    prof.gcfg.externals = true;
    let mut prog = pick_program(corpus, rng, &prof)?;
    if prog.kind == "generated" {
        // lists are the point here: re-generate with lists forced on
        let mut g = prof.gcfg.clone();
        g.swarm(rng);
        g.lists = true;
        g.list_ties = true;
        g.const_chains = true;
        g.random = true;
        g.shuffles = rng.chance(2, 3);
        prog = crate::inkgen::generate(rng, &g)?;
    }
    let cfg = ScriptCfg {
        beats: if tier == Tier::Quick { 3 + rng.below(4) } else { 3 + rng.below(8) },
        flows: rng.chance(1, 3),
        jumps: rng.chance(1, 4),
        evals: rng.chance(1, 4),
        setvars: rng.chance(1, 3),
        observers: rng.chance(1, 3),
        saves: rng.chance(1, 3),
        resets: rng.chance(1, 8),
        continue_max: rng.chance(1, 3),
        jump_functions: false,
        eval_any_knot: false,
    };
    let ops = gen_script(rng, &prog, &cfg);
    let host = default_host(&prog, rng);
    Some(Case {
        prop: "C03".into(),
        run,
        host,
        ops,
        params: json!({"k": if tier == Tier::Quick { 5 } else { 12 }}),
        hash_seed: rng.next_u64(),
        story_seed: rng.below(100) as i32,
        fuel: 300_000,
        program: prog,
    })
}

/// One execution of the case on the current (entropy-seeded) thread.
fn trace(case: &Case) -> Vec<String> {
    let mut t = Vec::new();
    // iteration order of a fresh map under this entropy (to measure that orders really differ)
    let mut probe: std::collections::HashMap<u32, u32> = std::collections::HashMap::new();
    for i in 0..16 {
        probe.insert(i, i);
    }
    let order: Vec<u32> = probe.keys().copied().collect();
    t.push(format!("#maporder {:?}", order));
    if let Some(src) = &case.program.source
        && case.program.kind == "generated"
    {
        match compile_source(src, None) {
            Ok(j) => t.push(format!("compile {:016x} {}", crate::rng::fnv(&j), j.len())),
            Err(e) => t.push(format!("compile-error {e}")),
        }
    }
    let mut h = match Host::new(&case.program, &case.host) {
        Ok(h) => h,
        Err(r) => {
            t.push(format!("construct {}", r.class()));
            return t;
        }
    };
    for (i, op) in case.ops.iter().enumerate() {
        let r = h.apply(op);
        if h.fuel_out {
            t.push("#fuel".into());
            return t;
        }
        let o = h.observe();
        let save = h.save_text().ok().and_then(|s| serde_json::from_str::<serde_json::Value>(&s).ok()).map(|j| canon(&j)).unwrap_or_default();
        if std::env::var("VERIF_TRACE").is_ok() {
            eprintln!("TRACE op {i} save {save}");
        }
        t.push(format!("op {i} {} -> {} | {:?} | save {:016x}", op.short(), r.class(), o, crate::rng::fnv(&save)));
        if r.is_panic() {
            break;
        }
    }
    for e in peer_strings(&h.log.borrow(), 0) {
        t.push(format!("ev {e}"));
    }
    t
}

/// The same case on a thread that has already created, played and dropped other stories
/// ("in the same process"): nothing may carry over from earlier instances - no cache keyed by an
/// address, no thread-local left behind.
fn warm_trace(case: &Case) -> Vec<String> {
    // (1) the same program with every knot renamed (k3 -> q3): same allocation pattern, other
    // paths. Played with the same ops and dropped, it leaves behind whatever an implementation
    // wrongly keeps per address or per thread - at the addresses the real run is about to reuse.
    let renamed = rename_knots(&case.program.json);
    if let Some(p) = Program::from_json("renamed", "warm-up", None, renamed)
        && let Ok(mut h) = Host::new(&p, &case.host)
    {
        for op in &case.ops {
            let op2 = match op {
                Op::Jump { path, reset, args } => Op::Jump { path: rename_knots(path), reset: *reset, args: args.clone() },
                other => other.clone(),
            };
            h.apply(&op2);
            if !h.alive() {
                break;
            }
        }
    }
    // (2) a few unrelated stories
    let mut r = Rng::new(mix(case.hash_seed, "C03-warm", 0));
    let mut g = crate::inkgen::GenCfg::general();
    g.lists = true;
    g.list_ties = true;
    g.const_chains = true;
    g.random = true;
    g.shuffles = true;
    g.sequences = true;
    g.fixed = true;
    for _ in 0..3 {
        g.knots = 1 + r.below(3);
        g.stmts = 2 + r.below(5);
        if let Some(p) = crate::inkgen::generate(&mut r, &g)
            && let Ok(mut h) = Host::new(&p, &HostCfg { handler: true, fallbacks: true, ..Default::default() })
        {
            for _ in 0..8 {
                h.apply(&Op::Continue);
                h.apply(&Op::Choose(r.below(3) as u32));
            }
        }
    }
    // (3) the renamed copy once more, so that it is the most recently freed instance
    let renamed = rename_knots(&case.program.json);
    if let Some(p) = Program::from_json("renamed", "warm-up", None, renamed)
        && let Ok(mut h) = Host::new(&p, &case.host)
    {
        for op in &case.ops {
            let op2 = match op {
                Op::Jump { path, reset, args } => Op::Jump { path: rename_knots(path), reset: *reset, args: args.clone() },
                other => other.clone(),
            };
            h.apply(&op2);
            if !h.alive() {
                break;
            }
        }
    }
    trace(case)
}

/// `k<digits>` -> `q<digits>` (same length, so the same allocation sizes) wherever it stands as a
/// whole identifier (keys, divert targets, paths).
fn rename_knots(s: &str) -> String {
    let b: Vec<char> = s.chars().collect();
    let mut out = String::with_capacity(s.len() + 64);
    let mut i = 0;
    while i < b.len() {
        let prev_ok = i == 0 || !(b[i - 1].is_alphanumeric() || b[i - 1] == '_');
        if b[i] == 'k' && prev_ok && i + 1 < b.len() && b[i + 1].is_ascii_digit() {
            let mut j = i + 1;
            while j < b.len() && b[j].is_ascii_digit() {
                j += 1;
            }
            let next_ok = j >= b.len() || !(b[j].is_alphanumeric() || b[j] == '_');
            if next_ok {
                out.push('q');
                out.extend(&b[i + 1..j]);
                i = j;
                continue;
            }
        }
        out.push(b[i]);
        i += 1;
    }
    out
}

/// Body of the `c03-warm` child process: fresh-thread trace vs warm-thread trace.
pub fn warm_child(case: &Case) -> serde_json::Value {
    let strip = |t: &Vec<String>| -> Vec<String> { t.iter().filter(|l| !l.starts_with("#maporder")).cloned().collect() };
    let c1 = case.clone();
    let fresh = match run_case_thread(case.hash_seed, case.story_seed, case.fuel, 50, 64, move || trace(&c1)) {
        Ok(t) => strip(&t),
        Err(_) => return json!({"same": true, "note": "timeout"}),
    };
    // several rounds on one thread: every round frees a renamed instance and then builds the real
    // one, each time with a different permutation of recycled addresses
    let c2 = case.clone();
    let fresh2 = fresh.clone();
    let warm = match run_case_thread(case.hash_seed, case.story_seed, case.fuel * 24, 55, 64, move || {
        let mut last = Vec::new();
        for round in 0..6 {
            // a few live allocations of odd sizes shift the allocator's free lists between rounds
            let _shift: Vec<Vec<u8>> = (0..round * 3).map(|k| vec![0u8; 24 + 16 * k]).collect();
            let t: Vec<String> = warm_trace(&c2).into_iter().filter(|l| !l.starts_with("#maporder")).collect();
            if t != fresh2 {
                return t;
            }
            last = t;
        }
        last
    }) {
        Ok(t) => t,
        Err(_) => return json!({"same": true, "note": "timeout"}),
    };
    if fresh == warm || fresh.iter().chain(warm.iter()).any(|l| l == "#fuel") {
        return json!({"same": true});
    }
    let i = fresh.iter().zip(warm.iter()).position(|(a, b)| a != b).unwrap_or(fresh.len().min(warm.len()));
    let a = fresh.get(i).cloned().unwrap_or_else(|| "<end>".into());
    let b = warm.get(i).cloned().unwrap_or_else(|| "<end>".into());
    let common = a.chars().zip(b.chars()).take_while(|(x, y)| x == y).count();
    let from = common.saturating_sub(120);
    let cut = |x: &str| x.chars().skip(from).take(420).collect::<String>();
    json!({"same": false, "field": field_of(&a, &b), "op": a.split(" -> ").next().unwrap_or(""), "fresh": cut(&a), "warm": cut(&b)})
}

fn execute(case: &Case) -> CaseResult {
    let mut res = CaseResult::default();
    res.fingerprint = crate::rng::fnv(&format!("{}|{:?}", case.program.name, case.ops)) ^ crate::rng::fnv(&case.program.json);
    let k = case.params["k"].as_u64().unwrap_or(5);
    let mut seeds: Vec<u64> = vec![case.hash_seed, case.hash_seed];
    for i in 1..k {
        seeds.push(mix(case.hash_seed, "C03-entropy", i));
    }
    let mut traces: Vec<(u64, Vec<String>)> = Vec::new();
    for s in &seeds {
        let c = case.clone();
        match run_case_thread(*s, case.story_seed, case.fuel, 50, 64, move || trace(&c)) {
            Ok(t) => traces.push((*s, t)),
            Err(_) => {
                res.discard = Some("sub-thread-timeout".into());
                return res;
            }
        }
    }
    if traces.iter().any(|t| t.1.iter().any(|l| l == "#fuel")) {
        res.discard = Some("fuel".into());
        return res;
    }
    let strip = |t: &Vec<String>| -> Vec<String> { t.iter().filter(|l| !l.starts_with("#maporder")).cloned().collect() };
    let base = strip(&traces[0].1);
    // self-determinism of the harness: same entropy, same trace (incl. map order)
    if traces[0].1 != traces[1].1 {
        let i = traces[0].1.iter().zip(traces[1].1.iter()).position(|(a, b)| a != b).unwrap_or(0);
        res.fail(Violation::new("C03", "same-entropy-divergence", "harness or runtime", "two runs with the same entropy seed differ").with(
            format!("entropy seed {}", traces[0].0),
            traces[0].1.get(i).cloned().unwrap_or_default().chars().take(400).collect(),
            traces[1].1.get(i).cloned().unwrap_or_default().chars().take(400).collect(),
        ));
        return res;
    }
    let mut order_differed = false;
    for (s, t) in traces.iter().skip(2) {
        if t[0] != traces[0].1[0] {
            order_differed = true;
        }
        res.stats.inc("fault.entropy.compared");
        let tt = strip(t);
        if tt != base {
            let i = base.iter().zip(tt.iter()).position(|(a, b)| a != b).unwrap_or(base.len().min(tt.len()));
            let a = base.get(i).cloned().unwrap_or_else(|| "<end>".into());
            let b = tt.get(i).cloned().unwrap_or_else(|| "<end>".into());
            // locate the differing part
            let common = a.chars().zip(b.chars()).take_while(|(x, y)| x == y).count();
            let from = common.saturating_sub(120);
            let cut = |x: &str| x.chars().skip(from).take(420).collect::<String>();
            let what = if a.starts_with("compile") { "compiler output" } else if a.starts_with("ev ") { "event log" } else { "observation" };
            let op = a.split(" -> ").next().unwrap_or("").to_string();
            res.fail(Violation::new("C03", "entropy-divergence", what, &field_of(&a, &b)).with(format!("{op}; entropy seeds {} vs {}", traces[0].0, s), cut(&a), cut(&b)));
            break;
        }
    }
    if order_differed {
        res.stats.inc("fault.entropy.map_order_differed");
    }
    // ---- same entropy, but on a thread with a history of other (dropped) stories. Whether a freed
    // address is reused depends on the whole allocation history of the process, so this comparison
    // runs in a child process of its own: from process start the allocation sequence - and with it
    // every address coincidence - is a function of the case alone, and replays exactly.
    if res.violations.is_empty() {
        let dir = crate::engine::out_dir().join("work");
        let _ = std::fs::create_dir_all(&dir);
        let f = dir.join(format!("c03-{}-{}.json", std::process::id(), case.run));
        if std::fs::write(&f, serde_json::to_vec(case).unwrap_or_default()).is_ok() {
            let out = std::process::Command::new(std::env::current_exe().unwrap()).args(["c03-warm", f.to_str().unwrap()]).stdin(std::process::Stdio::null()).output();
            let _ = std::fs::remove_file(&f);
            if let Ok(out) = out
                && let Ok(j) = serde_json::from_slice::<serde_json::Value>(&out.stdout)
            {
                res.stats.inc("fault.entropy.warm_thread_compared");
                if j["same"].as_bool() == Some(false) {
                    res.fail(Violation::new("C03", "history-divergence", "fresh thread vs thread with earlier stories", j["field"].as_str().unwrap_or("trace")).with(
                        format!("{}; entropy seed {}", j["op"].as_str().unwrap_or(""), case.hash_seed),
                        j["fresh"].as_str().unwrap_or("").to_string(),
                        j["warm"].as_str().unwrap_or("").to_string(),
                    ));
                }
            }
        }
    }
    if base.iter().any(|l| l.starts_with("compile ")) {
        res.stats.inc("fault.entropy.compile_compared");
    }
    let has_lists = !case.program.info.lists.is_empty();
    if has_lists {
        res.stats.inc("fault.entropy.list_program");
    }
    res.nontrivial = has_lists || case.program.info.globals.len() >= 2;
    res.digest = crate::rng::fnv(&base.join("\n")) | 1;
    res
}

/// Name the first observation field in which two trace lines differ.
fn field_of(a: &str, b: &str) -> String {
    let common = a.chars().zip(b.chars()).take_while(|(x, y)| x == y).count();
    let head: String = a.chars().take(common).collect();
    for f in ["save ", "visit_counts", "turn_indices", "story_seed", "prev_random", "turn_idx", "flows", "flow", "visits", "vars", "path", "warnings", "errors", "choices", "tags", "text", "can_continue"] {
        if let Some(i) = head.rfind(f) {
            // the last field name that starts before the difference
            let later = ["save ", "visit_counts", "turn_indices", "story_seed", "prev_random", "turn_idx", "flows", "flow", "visits", "vars", "path", "warnings", "errors", "choices", "tags", "text", "can_continue"]
                .iter()
                .filter_map(|g| head.rfind(g))
                .max()
                .unwrap_or(i);
            if later == i {
                return f.trim().to_string();
            }
        }
    }
    "trace".to_string()
}
