//! C03 - play is a deterministic function of program, seed and host calls.
//!
//! Simulated: entropy. Every `HashMap`'s iteration order and the story seed
//! come from the getrandom seam, so "another process" is simply another hash
//! seed - and a failure is replayable because both hash seeds are recorded.
use serde_json::json;

use super::inject::peer_strings;
use super::*;
use crate::corpus::{Corpus, compile_source};
use crate::engine::{CaseResult, PropertyDef, Tier};
use crate::host::{canon, run_case_thread};
use crate::rng::{Rng, mix};
use crate::script::{ScriptCfg, gen_script};

pub static DEF: PropertyDef = PropertyDef {
    id: "C03",
    level: "exploration",
    rule: "program (generator weighted to lists whose items share values inside one list and across lists, LIST_MAX/MIN/RANDOM/ALL/INVERT/VALUE, shuffles, RANDOM, many globals; \
           corpus of both compilers) x seeded host history (continue/choose/flows/jumps/assignments/saves) with a fixed story seed. The same case is executed on fresh threads \
           under K different entropy seeds (every HashMap order, every RandomState; K=5 quick, 12 thorough) and twice under the same one; the traces (result of every op, full \
           observation incl. variables, visit counts, canonical save text; line/observer/external events) must be identical, and compiling the program's source under each \
           entropy seed must give byte-identical output. The run is repeated in the dev-profile build and the per-run digests compared. \
           Non-trivial = the program has a list value with >= 2 items or >= 2 flows or >= 2 globals in the save; distinct = hash of program+history.",
    assumptions: &["story seed fixed through the guarded seed hook", "the order in which observers of different variables are notified within one continue is not part of the property"],
    runs_quick: 4000,
    runs_thorough: 60000,
    exhaustive_note: "none (K entropy seeds per sampled case)",
    generate,
    execute,
    must_hit: &["fault.entropy.compared", "fault.entropy.list_program", "fault.entropy.compile_compared", "fault.entropy.map_order_differed"],
    timeout_s: 60,
    hang_class: None,
    sub_builds: &[("dev", 1000, 10000, true)],
    stack_mb: 64,
};

fn generate(corpus: &Corpus, tier: Tier, run: u64, rng: &mut Rng) -> Option<Case> {
    let mut prof = GenProfile::general();
    prof.generated_pct = 70;
    prof.gcfg.list_ties = true;
    prof.gcfg.random = true;
    prof.gcfg.shuffles = true;
    prof.gcfg.externals = true;
    let mut prog = pick_program(corpus, rng, &prof)?;
    if prog.kind == "generated" {
        // lists are the point here: re-generate with lists forced on
        let mut g = prof.gcfg.clone();
        g.swarm(rng);
        g.lists = true;
        g.list_ties = true;
        g.random = true;
        g.shuffles = rng.chance(2, 3);
        prog = crate::inkgen::generate(rng, &g)?;
    }
    let cfg = ScriptCfg {
        beats: if tier == Tier::Quick { 3 + rng.below(4) } else { 3 + rng.below(8) },
        flows: rng.chance(1, 3),
        jumps: rng.chance(1, 4),
        evals: rng.chance(1, 4),
        setvars: rng.chance(1, 3),
        observers: rng.chance(1, 3),
        saves: rng.chance(1, 3),
        resets: rng.chance(1, 8),
        continue_max: rng.chance(1, 3),
        jump_functions: false,
    };
    let ops = gen_script(rng, &prog, &cfg);
    let host = default_host(&prog, rng);
    Some(Case {
        prop: "C03".into(),
        run,
        host,
        ops,
        params: json!({"k": if tier == Tier::Quick { 5 } else { 12 }}),
        hash_seed: rng.next_u64(),
        story_seed: rng.below(100) as i32,
        fuel: 300_000,
        program: prog,
    })
}

/// One execution of the case on the current (entropy-seeded) thread.
fn trace(case: &Case) -> Vec<String> {
    let mut t = Vec::new();
    // iteration order of a fresh map under this entropy (to measure that orders really differ)
    let mut probe: std::collections::HashMap<u32, u32> = std::collections::HashMap::new();
    for i in 0..16 {
        probe.insert(i, i);
    }
    let order: Vec<u32> = probe.keys().copied().collect();
    t.push(format!("#maporder {:?}", order));
    if let Some(src) = &case.program.source
        && case.program.kind == "generated"
    {
        match compile_source(src, None) {
            Ok(j) => t.push(format!("compile {:016x} {}", crate::rng::fnv(&j), j.len())),
            Err(e) => t.push(format!("compile-error {e}")),
        }
    }
    let mut h = match Host::new(&case.program, &case.host) {
        Ok(h) => h,
        Err(r) => {
            t.push(format!("construct {}", r.class()));
            return t;
        }
    };
    for (i, op) in case.ops.iter().enumerate() {
        let r = h.apply(op);
        if h.fuel_out {
            t.push("#fuel".into());
            return t;
        }
        let o = h.observe();
        let save = h.save_text().ok().and_then(|s| serde_json::from_str::<serde_json::Value>(&s).ok()).map(|j| canon(&j)).unwrap_or_default();
        t.push(format!("op {i} {} -> {} | {:?} | save {:016x}", op.short(), r.class(), o, crate::rng::fnv(&save)));
        if r.is_panic() {
            break;
        }
    }
    for e in peer_strings(&h.log.borrow(), 0) {
        t.push(format!("ev {e}"));
    }
    t
}

fn execute(case: &Case) -> CaseResult {
    let mut res = CaseResult::default();
    res.fingerprint = crate::rng::fnv(&format!("{}|{:?}", case.program.name, case.ops)) ^ crate::rng::fnv(&case.program.json);
    let k = case.params["k"].as_u64().unwrap_or(5);
    let mut seeds: Vec<u64> = vec![case.hash_seed, case.hash_seed];
    for i in 1..k {
        seeds.push(mix(case.hash_seed, "C03-entropy", i));
    }
    let mut traces: Vec<(u64, Vec<String>)> = Vec::new();
    for s in &seeds {
        let c = case.clone();
        match run_case_thread(*s, case.story_seed, case.fuel, 50, 64, move || trace(&c)) {
            Ok(t) => traces.push((*s, t)),
            Err(_) => {
                res.discard = Some("sub-thread-timeout".into());
                return res;
            }
        }
    }
    if traces.iter().any(|t| t.1.iter().any(|l| l == "#fuel")) {
        res.discard = Some("fuel".into());
        return res;
    }
    let strip = |t: &Vec<String>| -> Vec<String> { t.iter().filter(|l| !l.starts_with("#maporder")).cloned().collect() };
    let base = strip(&traces[0].1);
    // self-determinism of the harness: same entropy, same trace (incl. map order)
    if traces[0].1 != traces[1].1 {
        let i = traces[0].1.iter().zip(traces[1].1.iter()).position(|(a, b)| a != b).unwrap_or(0);
        res.fail(Violation::new("C03", "same-entropy-divergence", "harness or runtime", "two runs with the same entropy seed differ").with(
            format!("entropy seed {}", traces[0].0),
            traces[0].1.get(i).cloned().unwrap_or_default().chars().take(400).collect(),
            traces[1].1.get(i).cloned().unwrap_or_default().chars().take(400).collect(),
        ));
        return res;
    }
    let mut order_differed = false;
    for (s, t) in traces.iter().skip(2) {
        if t[0] != traces[0].1[0] {
            order_differed = true;
        }
        res.stats.inc("fault.entropy.compared");
        let tt = strip(t);
        if tt != base {
            let i = base.iter().zip(tt.iter()).position(|(a, b)| a != b).unwrap_or(base.len().min(tt.len()));
            let a = base.get(i).cloned().unwrap_or_else(|| "<end>".into());
            let b = tt.get(i).cloned().unwrap_or_else(|| "<end>".into());
            // locate the differing part
            let common = a.chars().zip(b.chars()).take_while(|(x, y)| x == y).count();
            let from = common.saturating_sub(120);
            let cut = |x: &str| x.chars().skip(from).take(420).collect::<String>();
            let what = if a.starts_with("compile") { "compiler output" } else if a.starts_with("ev ") { "event log" } else { "observation" };
            let op = a.split(" -> ").next().unwrap_or("").to_string();
            res.fail(Violation::new("C03", "entropy-divergence", what, &field_of(&a, &b)).with(format!("{op}; entropy seeds {} vs {}", traces[0].0, s), cut(&a), cut(&b)));
            break;
        }
    }
    if order_differed {
        res.stats.inc("fault.entropy.map_order_differed");
    }
    if base.iter().any(|l| l.starts_with("compile ")) {
        res.stats.inc("fault.entropy.compile_compared");
    }
    let has_lists = !case.program.info.lists.is_empty();
    if has_lists {
        res.stats.inc("fault.entropy.list_program");
    }
    res.nontrivial = has_lists || case.program.info.globals.len() >= 2;
    res.digest = crate::rng::fnv(&base.join("\n")) | 1;
    res
}

/// Name the first observation field in which two trace lines differ.
fn field_of(a: &str, b: &str) -> String {
    let common = a.chars().zip(b.chars()).take_while(|(x, y)| x == y).count();
    let head: String = a.chars().take(common).collect();
    for f in ["save ", "visit_counts", "turn_indices", "story_seed", "prev_random", "turn_idx", "flows", "flow", "visits", "vars", "path", "warnings", "errors", "choices", "tags", "text", "can_continue"] {
        if let Some(i) = head.rfind(f) {
            // the last field name that starts before the difference
            let later = ["save ", "visit_counts", "turn_indices", "story_seed", "prev_random", "turn_idx", "flows", "flow", "visits", "vars", "path", "warnings", "errors", "choices", "tags", "text", "can_continue"]
                .iter()
                .filter_map(|g| head.rfind(g))
                .max()
                .unwrap_or(i);
            if later == i {
                return f.trim().to_string();
            }
        }
    }
    "trace".to_string()
}
