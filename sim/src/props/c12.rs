//! C12 - external functions are called as bound: right arguments, order and timing.
use serde_json::json;

use super::*;
use crate::corpus::{Corpus, compile_source};
use crate::engine::{CaseResult, PropertyDef, Tier};
use crate::host::Ev;
use crate::rng::Rng;

pub static DEF: PropertyDef = PropertyDef {
    id: "C12",
    level: "exploration",
    rule: "generated programs with external call sites in statement, inline, condition, assignment, string and choice-text positions, directly after line ends and after glue; \
           every site has a unique number S passed as the call's first argument and written into the lines around it (pre S = a line that ends before the call, post S = a line \
           only reachable after the call, want= the order-sensitive value p0 + 10*p1 + 7 the call must produce); sites sit in code that runs at most once per play-through; each \
           external has an Ink fallback computing the same value x seeded continue/choose histories, played under four configurations: unbound with fallbacks, bound \
           look-ahead-safe, bound not-safe, unbound without fallbacks. Oracles over the recorded history (every peer call and every delivered line stamped with the global event \
           sequence number): printed value == want in every mode (argument order, value used where the call stands); safe: never refused, at least one call for every site \
           whose post line was delivered, transcript identical to the fallback run; not-safe: exactly one call per executed site (none twice), never before its pre line was \
           delivered, string/choice-text sites refused with an error and never reaching the peer; unbound without fallback: first continue returns Err naming every external the story calls anywhere, no panic; bound, then unbound by the host at a \
           seeded point of the history with fallbacks allowed (program as generated, and with its Ink fallbacks removed): no host call after the unbind, Ok or Err, never a panic. \
           Non-trivial = at least one site's call was committed under the safe binding; distinct = hash of program+history.",
    assumptions: &["external peers are pure functions of their arguments (what look-ahead-safe means)"],
    runs_quick: 10000,
    runs_thorough: 150000,
    exhaustive_note: "four binding configurations for every sampled history",
    generate,
    execute,
    must_hit: &["fault.external.committed_call", "fault.external.value_checked", "fault.external.string_position_safe", "fault.external.string_position_refused", "fault.external.unbound_rejected", "fault.external.unbound_mid_history", "fault.external.second_bind_rejected", "fault.external.unbound_mid_history_call_rejected", "probe.unsafe_external_deferred", "fault.external.speculative_safe_call", "fault.external.unsafe_after_preceding_line"],
    timeout_s: 30,
    hang_class: None,
    sub_builds: &[],
    stack_mb: 64,
};

fn generate(_corpus: &Corpus, tier: Tier, run: u64, rng: &mut Rng) -> Option<Case> {
    let mut g = crate::inkgen::GenCfg::general();
    g.swarm(rng);
    g.externals = true;
    g.external_heavy = true;
    g.random = false;
    // `TURNS_SINCE(-> k)` inside choice text is compiled as text plus a divert (compiler quirk), which re-runs
    // content; the at-most-once assumption about sites needs programs without it
    g.turns = false;
    g.shuffles = false;
    g.loops = false; // a site must run at most once per play-through
    g.strings = true;
    g.glue = true;
    let prog = crate::inkgen::generate(rng, &g)?;
    let beats = match tier {
        Tier::Quick => 3 + rng.below(5),
        Tier::Thorough => 3 + rng.below(9),
    };
    let mut ops = Vec::new();
    for _ in 0..beats {
        let k = 1 + rng.below(5);
        for _ in 0..k {
            ops.push(Op::Continue);
        }
        ops.push(Op::Choose(rng.below(5) as u32));
    }
    Some(Case {
        prop: "C12".into(),
        run,
        host: HostCfg { handler: false, fallbacks: true, bindings: vec![], observers: vec![], ext_ret: 3 },
        ops,
        params: json!({}),
        hash_seed: rng.next_u64(),
        story_seed: rng.below(100) as i32,
        fuel: 200_000,
        program: prog,
    })
}

/// (external name, site number = first argument, log index)
fn ext_calls(h: &Host, from: usize) -> Vec<(String, i64, usize)> {
    h.log
        .borrow()
        .iter()
        .enumerate()
        .skip(from)
        .filter_map(|(i, e)| match e {
            Ev::External { name, args, .. } => {
                let site = args.first().and_then(|a| a.trim_start_matches("i:").parse::<i64>().ok()).unwrap_or(-1);
                Some((name.clone(), site, i))
            }
            _ => None,
        })
        .collect()
}

fn lines_with_idx(h: &Host) -> Vec<(String, usize)> {
    h.log
        .borrow()
        .iter()
        .enumerate()
        .filter_map(|(i, e)| match e {
            Ev::Line { text, .. } => Some((text.clone(), i)),
            _ => None,
        })
        .collect()
}

fn has_marker(text: &str, marker: &str) -> bool {
    // `pre12` must not match `pre123`
    text.match_indices(marker).any(|(i, _)| !text[i + marker.len()..].chars().next().map(|c| c.is_ascii_digit()).unwrap_or(false))
}

/// `x=<got> want=<want>` pairs of a delivered line or choice text.
fn value_pairs(text: &str) -> Vec<(String, String)> {
    let mut out = Vec::new();
    for (i, _) in text.match_indices(" x=") {
        let rest = &text[i + 3..];
        if let Some(w) = rest.find(" want=") {
            let got = rest[..w].to_string();
            if got.contains(' ') {
                continue;
            }
            let want: String = rest[w + 6..].chars().take_while(|c| *c != ';').collect();
            out.push((got, want));
        }
    }
    out
}

fn site_ids(src: &str, marker: &str) -> Vec<i64> {
    let mut v = Vec::new();
    for (i, _) in src.match_indices(marker) {
        let d: String = src[i + marker.len()..].chars().take_while(|c| c.is_ascii_digit()).collect();
        if let Ok(n) = d.parse::<i64>() {
            v.push(n);
        }
    }
    v.sort();
    v.dedup();
    v
}

/// The source without the Ink fallback functions of the externals (`=== function <ext>(..) ===` blocks).
fn strip_fallbacks(src: &str, names: &[String]) -> Option<String> {
    let mut out = String::new();
    let mut skipping = false;
    let mut removed = 0;
    for l in src.lines() {
        if l.starts_with("===") {
            skipping = names.iter().any(|n| l.starts_with(&format!("=== function {n}(")));
            if skipping {
                removed += 1;
            }
        }
        if !skipping {
            out.push_str(l);
            out.push('\n');
        }
    }
    if removed == 0 { None } else { Some(out) }
}

fn execute(case: &Case) -> CaseResult {
    let mut res = CaseResult::default();
    let prog = &case.program;
    res.fingerprint = crate::rng::fnv(&format!("{}|{:?}", prog.name, case.ops)) ^ crate::rng::fnv(&prog.json);
    let names: Vec<String> = prog.info.externals.iter().map(|e| e.0.clone()).collect();
    if names.is_empty() {
        res.discard = Some("no-external".into());
        return res;
    }
    let src = prog.source.clone().unwrap_or_default();
    let bind = |safe: bool| -> Vec<(String, bool)> { names.iter().map(|n| (n.clone(), safe)).collect() };
    let mk = |bindings: Vec<(String, bool)>, fallbacks: bool| HostCfg { handler: false, fallbacks, bindings, observers: vec![], ext_ret: 3 };
    macro_rules! fail {
        ($class:expr, $site:expr, $detail:expr, $at:expr, $exp:expr, $act:expr) => {
            res.fail(Violation::new("C12", $class, $site, $detail).with($at, $exp, $act))
        };
    }
    // ---- unbound, no fallback: the first continue fails with an error, never a panic
    if let Ok(mut x) = Host::new(prog, &mk(vec![], false)) {
        let r = x.apply(&Op::Continue);
        match &r {
            Res::Err(_, msg) => {
                res.stats.inc("fault.external.unbound_rejected");
                // validation looks at the whole story: every external that is called anywhere is reported
                if msg.contains("Missing function binding") {
                    let reported: Vec<&str> = msg.split(|c: char| !(c.is_alphanumeric() || c == '_')).collect();
                    for n in &names {
                        if !reported.contains(&n.as_str()) {
                            fail!("external:validation-incomplete", "validate_external_bindings", "an unbound external that the story calls is not reported", "first continue, unbound without fallbacks".to_string(), format!("'{n}' among the missing bindings"), msg.chars().take(200).collect::<String>());
                        }
                    }
                    res.stats.inc("fault.external.validation_complete_checked");
                }
            }
            Res::Panic(st, m) => fail!("panic", st, &crate::host::norm_msg(m), "first continue, unbound without fallbacks".to_string(), "Err".to_string(), r.brief()),
            Res::Ok(_) => fail!("external:unbound", "validate_external_bindings", "continue succeeded with unbound externals and fallbacks disabled", "first continue".to_string(), "Err".to_string(), r.brief()),
            _ => {}
        }
    }
    // ---- bound at first, unbound by the host in the middle of the history (fallbacks allowed): with an Ink
    // fallback the story plays on through it, without one the next call is an error - never a panic. The
    // bindings were validated by the first continue; nothing may rely on that after an unbind.
    {
        let at = (res.fingerprint as usize) % case.ops.len().max(1);
        let stripped = strip_fallbacks(&src, &names).and_then(|s2| compile_source(&s2, None).ok()).and_then(|json| Program::from_json("generated", &format!("{}-nofallback", prog.name), None, json));
        for (what, p) in [("with Ink fallbacks", Some(prog.clone())), ("without Ink fallbacks", stripped)] {
            let Some(p) = p else { continue };
            let Ok(mut x) = Host::new(&p, &mk(bind(true), true)) else { continue };
            let mut unbound = false;
            for (i, op) in case.ops.iter().enumerate() {
                if i == at {
                    for n in &names {
                        let _ = x.apply(&Op::Unbind { name: n.clone() });
                    }
                    unbound = true;
                    res.stats.inc("fault.external.unbound_mid_history");
                }
                let before = x.log.borrow().len();
                let r = x.apply(op);
                if x.fuel_out {
                    break;
                }
                if let Res::Panic(st, m) = &r {
                    fail!("panic", st, &crate::host::norm_msg(m), format!("op {i} {} (bound, unbound before op {at}, {what})", op.short()), "Ok/Err".to_string(), r.brief());
                    break;
                }
                if unbound && x.log.borrow()[before..].iter().any(|e| matches!(e, Ev::External { .. })) {
                    fail!("external:called-after-unbind", "unbind_external_function", "the host function was called after it had been unbound", format!("op {i} {} ({what})", op.short()), "no call".to_string(), "a call".to_string());
                    break;
                }
                if unbound && matches!(r, Res::Err(..)) {
                    res.stats.inc("fault.external.unbound_mid_history_call_rejected");
                    break;
                }
            }
        }
    }
    // ---- play the history under the three working configurations
    let modes: [(&str, HostCfg); 3] = [("fallback", mk(vec![], true)), ("bound safe", mk(bind(true), false)), ("bound not-safe", mk(bind(false), false))];
    let mut transcripts: Vec<Vec<String>> = Vec::new();
    for (mode, cfg) in modes.iter() {
        let mut h = match Host::new(prog, cfg) {
            Ok(h) => h,
            Err(_) => {
                res.discard = Some("construct".into());
                return res;
            }
        };
        let mut transcript: Vec<String> = Vec::new();
        let mut refused_at: Option<usize> = None;
        for (i, op) in case.ops.iter().enumerate() {
            if i == 1 && *mode == "bound not-safe" {
                // the host tries to bind a bound name again, as look-ahead-safe: refused, and the binding stays as it was
                if matches!(h.apply(&Op::Invalid(InvalidKind::BindTwice)), Res::Err(..)) {
                    res.stats.inc("fault.external.second_bind_rejected");
                }
            }
            if matches!(op, Op::Choose(_)) {
                transcript.push(format!("choices {:?}", h.choices()));
            }
            let r = h.apply(op);
            if h.fuel_out {
                res.discard = Some("fuel".into());
                return res;
            }
            match &r {
                Res::Panic(st, m) => {
                    if m.contains("xternal") || st.contains("external") {
                        fail!("panic", st, &crate::host::norm_msg(m), format!("op {i} {} ({mode})", op.short()), "Ok/Err".to_string(), r.brief());
                    } else {
                        res.stats.inc("stopped_by_unrelated_panic");
                    }
                    return res;
                }
                Res::Err(_, m) if m.contains("could not be called") => {
                    refused_at = Some(i);
                    break;
                }
                Res::Err(..) => break, // some other story error ends this play-through
                Res::Ok(t) if matches!(op, Op::Continue) => transcript.push(t.clone()),
                _ => {}
            }
        }
        let calls = ext_calls(&h, 0);
        let lines = lines_with_idx(&h);
        let choice_texts: Vec<String> = transcript.iter().filter(|t| t.starts_with("choices")).cloned().collect();
        let at = |what: &str| format!("{what} ({mode})");
        // values are used where the call stands, arguments arrive in order
        for (text, _) in lines.iter().map(|l| (l.0.clone(), l.1)).chain(choice_texts.iter().map(|c| (c.clone(), 0usize))) {
            for (got, want) in value_pairs(&text) {
                res.stats.inc("fault.external.value_checked");
                if got != want {
                    fail!("external:value-placement", mode, "the value printed where the call stands is not the value of the call", at(&format!("line {:?}", text.trim())), want, got);
                }
            }
        }
        let post_delivered = |sid: i64| lines.iter().any(|l| has_marker(&l.0, &format!("post{sid}")));
        let all_sites: Vec<i64> = {
            let mut v = site_ids(&src, " post");
            v.extend(site_ids(&src, " chc"));
            v.sort();
            v.dedup();
            v
        };
        let string_sites: Vec<i64> = {
            let mut v = site_ids(&src, " str");
            v.extend(site_ids(&src, " chc"));
            v
        };
        match *mode {
            "fallback" => {
                if refused_at.is_some() {
                    fail!("external:refusal", "fallback", "an Ink fallback was refused", at("history"), "no refusal".to_string(), "refused".to_string());
                }
            }
            "bound safe" => {
                if let Some(i) = refused_at {
                    fail!("external:refusal", "call_external_function", "a look-ahead-safe function was refused", at(&format!("op {i}")), "called".to_string(), "refused with an error".to_string());
                }
                for sid in &all_sites {
                    let n = calls.iter().filter(|c| c.1 == *sid).count();
                    if post_delivered(*sid) {
                        if n == 0 {
                            fail!("external:duplicate", "bound safe", "a line after the call was delivered but the call never reached the peer", at(&format!("site {sid}")), ">= 1 call".to_string(), "0".to_string());
                        } else {
                            res.stats.inc("fault.external.committed_call");
                            res.nontrivial = true;
                            if n > 1 {
                                res.stats.inc("fault.external.speculative_safe_call");
                            }
                            if string_sites.contains(sid) {
                                res.stats.inc("fault.external.string_position_safe");
                            }
                        }
                    }
                }
            }
            _ => {
                for sid in &all_sites {
                    let mine: Vec<&(String, i64, usize)> = calls.iter().filter(|c| c.1 == *sid).collect();
                    if string_sites.contains(sid) {
                        if !mine.is_empty() {
                            fail!("external:refusal", "call_external_function", "a not-look-ahead-safe function was called from inside a string or choice text", at(&format!("site {sid}")), "refused with an error, peer not called".to_string(), format!("{} call(s)", mine.len()));
                        }
                        continue;
                    }
                    if mine.len() > 1 {
                        fail!("external:speculative-unsafe", "bound not-safe", "a not-look-ahead-safe function ran more than once for one executed call", at(&format!("site {sid}")), "1 call".to_string(), format!("{} calls", mine.len()));
                    }
                    if post_delivered(*sid) && mine.is_empty() {
                        fail!("external:duplicate", "bound not-safe", "a line after the call was delivered but the call never reached the peer", at(&format!("site {sid}")), "1 call".to_string(), "0".to_string());
                    }
                    // never before the line preceding it has been delivered to the host
                    if let Some(c) = mine.first()
                        && src.contains(&format!(" pre{sid} "))
                    {
                        let pre = lines.iter().find(|l| has_marker(&l.0, &format!("pre{sid}")));
                        match pre {
                            Some(l) if l.1 < c.2 => res.stats.inc("fault.external.unsafe_after_preceding_line"),
                            // glue merged the "preceding" line with the line of the call: there was no line end before it
                            Some(l) if has_marker(&l.0, &format!("post{sid}")) || has_marker(&l.0, &format!("asg{sid}")) => res.stats.inc("fault.external.pre_line_merged_by_glue"),
                            // the continue that made the call failed before delivering anything: inconclusive
                            None => res.stats.inc("fault.external.pre_line_never_delivered"),
                            _ => {
                                fail!("external:speculative-unsafe", "bound not-safe", "called before the line preceding the call was delivered", at(&format!("site {sid}")), format!("line pre{sid} delivered first"), "call came first".to_string());
                            }
                        }
                    }
                }
                if refused_at.is_some() {
                    res.stats.inc("fault.external.string_position_refused");
                }
            }
        }
        transcripts.push(transcript);
    }
    // safe binding and Ink fallback both look ahead: identical lines and choices
    if res.violations.is_empty() && transcripts.len() >= 2 && transcripts[0] != transcripts[1] {
        let i = transcripts[0].iter().zip(transcripts[1].iter()).position(|(a, b)| a != b).unwrap_or(transcripts[0].len().min(transcripts[1].len()));
        fail!(
            "external:value-placement",
            "bound safe vs fallback",
            "lines or choices differ from the run in which ink computed the value",
            format!("transcript entry {i}"),
            transcripts[0].get(i).cloned().unwrap_or_else(|| "<end>".into()),
            transcripts[1].get(i).cloned().unwrap_or_else(|| "<end>".into())
        );
    }
    res
}
