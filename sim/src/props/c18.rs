//! C18 - dropping a story releases all the memory it used.
//!
//! Simulated: the allocator (per-thread live-byte accounting in the harness's
//! global allocator). Conservation: identical create-play-drop cycles must not
//! grow the live heap; neither must repeated resets or loads of one instance.
use serde_json::json;

use super::*;
use crate::corpus::Corpus;
use crate::engine::{CaseResult, PropertyDef, Tier};
use crate::rng::Rng;
use crate::script::{ScriptCfg, gen_script};
use crate::seams::live_bytes;

pub static DEF: PropertyDef = PropertyDef {
    id: "C18",
    level: "exploration",
    rule: "program (corpus of both compilers + generator: every kind of divert incl. diverts to ancestor containers through loops, tunnels, threads, functions, choices with thread \
           snapshots, lists) x seeded host history (continue/choose/flows/jumps/evaluations/assignments/saves/loads/resets, observers and externals attached). Three conservation \
           checks under the counting allocator, each with N identical cycles (N=8 quick, 24 thorough): (a) create story -> play history -> drop; (b) one instance: play history -> \
           reset_state; (c) one instance: load the same save. Live bytes after cycle N must equal live bytes after cycle N/2 (the first cycles may initialise thread-locals and \
           grow reusable buffers). Non-trivial = the history delivered at least one line and followed at least one divert; distinct = hash of program+history.",
    assumptions: &["the harness keeps no allocation of its own alive across the measured region except buffers whose capacity is stable over identical cycles (checked by a control cycle that never touches the library)"],
    runs_quick: 6000,
    runs_thorough: 80000,
    exhaustive_note: "none (sampled programs and histories)",
    generate,
    execute,
    must_hit: &["fault.cycle.create_play_drop", "fault.cycle.play_reset", "fault.cycle.load_same_save", "cycle.program_with_loop", "programs.json-mutated"],
    timeout_s: 60,
    hang_class: None,
    sub_builds: &[],
    stack_mb: 64,
};

fn generate(corpus: &Corpus, tier: Tier, run: u64, rng: &mut Rng) -> Option<Case> {
    let mut prof = super::c02::c02_profile();
    prof.max_json = 30_000;
    let mut prog = pick_program(corpus, rng, &prof)?;
    // hand-made runtime JSON: a choice whose target is the container it stands in (a menu that leads back
    // to itself) - no compiler emits it, the runtime plays it
    if rng.chance(1, 6) {
        let hits: Vec<usize> = prog.json.match_indices("{\"*\":\"").map(|m| m.0).collect();
        if !hits.is_empty() {
            let at = hits[rng.below(hits.len())] + 6;
            if let Some(end) = prog.json[at..].find('"') {
                let target = if rng.chance(1, 2) { ".^".to_string() } else { prog.json[at..at + end].split('.').next().unwrap_or(".^").to_string() };
                let mutated = format!("{}{}{}", &prog.json[..at], target, &prog.json[at + end..]);
                if let Some(p2) = Program::from_json("json-mutated", &prog.name, prog.source.clone(), mutated) {
                    prog = p2;
                }
            }
        }
    }
    let cfg = ScriptCfg {
        beats: if tier == Tier::Quick { 2 + rng.below(4) } else { 2 + rng.below(7) },
        flows: rng.chance(1, 3),
        jumps: rng.chance(1, 3),
        evals: rng.chance(1, 4),
        setvars: rng.chance(1, 3),
        observers: rng.chance(1, 3),
        saves: rng.chance(1, 3),
        resets: rng.chance(1, 8),
        continue_max: rng.chance(1, 3),
        jump_functions: false,
        eval_any_knot: false,
    };
    let ops = gen_script(rng, &prog, &cfg);
    let mut host = default_host(&prog, rng);
    // a third of the hosts bind nothing and allow the Ink fallbacks
    if rng.chance(1, 3) {
        host.bindings.clear();
        host.fallbacks = true;
    }
    Some(Case {
        prop: "C18".into(),
        run,
        host,
        ops,
        params: json!({"n": if tier == Tier::Quick { 8 } else { 24 }}),
        hash_seed: rng.next_u64(),
        story_seed: rng.below(100) as i32,
        fuel: 2_000_000,
        program: prog,
    })
}

/// One create-play-drop cycle. Returns (lines delivered, alive at the end).
fn cycle(case: &Case) -> (usize, bool) {
    let mut h = match Host::new(&case.program, &case.host) {
        Ok(h) => h,
        Err(_) => return (0, false),
    };
    for op in &case.ops {
        let r = h.apply(op);
        if r.is_panic() || h.fuel_out {
            return (h.lines.get(), false);
        }
    }
    (h.lines.get(), true)
}

fn execute(case: &Case) -> CaseResult {
    let mut res = CaseResult::default();
    res.fingerprint = crate::rng::fnv(&format!("{}|{:?}", case.program.name, case.ops)) ^ crate::rng::fnv(&case.program.json);
    let n = case.params["n"].as_u64().unwrap_or(8) as usize;
    let half = n / 2;
    // warm-up outside the measurement: lazy statics, thread-locals, the panic machinery
    let (lines, ok) = cycle(case);
    if !ok {
        res.discard = Some(if bladeink::verif::fuel_exhausted() { "fuel".into() } else { "history-panicked-or-construct".into() });
        return res;
    }
    let has_loop = case.program.source.as_deref().map(|s| s.contains("loopc <")).unwrap_or(false) || case.program.kind != "generated";
    if has_loop {
        res.stats.inc("cycle.program_with_loop");
    }
    // ---- (a) create -> play -> drop
    let mut at_half = 0isize;
    for k in 1..=n {
        let _ = cycle(case);
        if k == half {
            at_half = live_bytes();
        }
    }
    let at_end = live_bytes();
    res.stats.inc("fault.cycle.create_play_drop");
    if at_end != at_half {
        let per = (at_end - at_half) as f64 / (n - half) as f64;
        res.fail(Violation::new("C18", "leak:cycle", "create-play-drop", "live heap grows across identical create-play-drop cycles").with(
            format!("{} cycles", n),
            format!("live bytes after cycle {n} == after cycle {half} ({at_half})"),
            format!("{at_end} ({per:.0} bytes per cycle)"),
        ));
        res.stats.add("leak.bytes_per_cycle_sum", per.max(0.0) as u64);
    }
    // ---- (b) one instance: play -> reset
    if let Ok(mut h) = Host::new(&case.program, &case.host) {
        let mut half_b = 0isize;
        let mut okb = true;
        for k in 1..=n {
            for op in &case.ops {
                let r = h.apply(op);
                if r.is_panic() || h.fuel_out {
                    okb = false;
                    break;
                }
            }
            if !okb || !matches!(h.apply(&Op::Reset), Res::Ok(_)) {
                okb = false;
                break;
            }
            // the host's own books: same content every cycle
            h.take_log();
            h.slots.clear();
            h.lines.set(0);
            h.op_idx = 0;
            if k == half {
                half_b = live_bytes();
            }
        }
        if okb {
            let end_b = live_bytes();
            res.stats.inc("fault.cycle.play_reset");
            // observers registered by the script accumulate in the host's `regs` only if the script adds them;
            // the script is identical every cycle, so registrations are idempotent (already-registered = no-op)
            if end_b != half_b {
                let per = (end_b - half_b) as f64 / (n - half) as f64;
                res.fail(Violation::new("C18", "leak:reset", "play-reset", "live heap grows across identical play-reset cycles on one instance").with(
                    format!("{} cycles", n),
                    format!("{half_b}"),
                    format!("{end_b} ({per:.0} bytes per cycle)"),
                ));
            }
        }
        drop(h);
    }
    // ---- (c) one instance: load the same save again and again
    if let Ok(mut h) = Host::new(&case.program, &case.host) {
        let mut okc = true;
        for op in &case.ops {
            let r = h.apply(op);
            if r.is_panic() || h.fuel_out {
                okc = false;
                break;
            }
        }
        if okc && let Ok(save) = h.save_text() {
            let mut half_c = 0isize;
            for k in 1..=n {
                if !matches!(h.load_text(&save), Res::Ok(_)) {
                    okc = false;
                    break;
                }
                if k == half {
                    half_c = live_bytes();
                }
            }
            if okc {
                let end_c = live_bytes();
                res.stats.inc("fault.cycle.load_same_save");
                if end_c != half_c {
                    let per = (end_c - half_c) as f64 / (n - half) as f64;
                    res.fail(Violation::new("C18", "leak:load", "load-same-save", "live heap grows when the same save is loaded repeatedly").with(
                        format!("{} loads", n),
                        format!("{half_c}"),
                        format!("{end_c} ({per:.0} bytes per load)"),
                    ));
                }
            }
        }
    }
    res.nontrivial = lines > 0;
    res
}
