//! Property drivers.
use crate::engine::{CaseResult, PropertyDef};
use crate::host::{Host, Obs, Res};
use crate::model::*;

pub mod c02;
pub mod c03;
pub mod c04;
pub mod c08;
pub mod c09;
pub mod c10;
pub mod c11;
pub mod c12;
pub mod c13;
pub mod c15;
pub mod c16;
pub mod c17;
pub mod c18;
pub mod c20;
pub mod inject;

pub fn all() -> Vec<&'static PropertyDef> {
    vec![&c02::DEF, &c03::DEF, &c04::DEF, &c08::DEF, &c09::DEF, &c10::DEF, &c11::DEF, &c12::DEF, &c13::DEF, &c15::DEF, &c16::DEF, &c17::DEF, &c18::DEF, &c20::DEF]
}

pub fn find(id: &str) -> Option<&'static PropertyDef> {
    all().into_iter().find(|d| d.id == id)
}

pub struct Diverge {
    pub step: usize,
    pub op: String,
    pub field: String,
    pub exp: String,
    pub act: String,
}

pub enum Lock {
    Same,
    Diverged(Diverge),
    /// both sides stopped (fuel, or the reference itself died): nothing more to compare
    Stopped(String),
}

pub fn no_skip(_: &str) -> bool {
    false
}

/// Compare the current observations of two hosts.
pub fn compare_now(a: &mut Host, b: &mut Host, step: usize, op: &str, skip: &dyn Fn(&str) -> bool) -> Option<Diverge> {
    let oa = a.observe();
    let ob = b.observe();
    oa.first_diff(&ob, skip).map(|(field, exp, act)| Diverge { step, op: op.to_string(), field, exp, act })
}

/// Drive two hosts with the same ops; after each op compare the outcome class
/// and the full observation. `a` is the reference.
pub fn lockstep(a: &mut Host, b: &mut Host, ops: &[Op], skip: &dyn Fn(&str) -> bool, compared: &mut u64) -> Lock {
    for (i, op) in ops.iter().enumerate() {
        let ra = a.apply(op);
        let rb = b.apply(op);
        if a.fuel_out || b.fuel_out {
            return Lock::Stopped("fuel".into());
        }
        if ra.is_panic() {
            // the reference itself panicked: not this property's subject
            return Lock::Stopped(format!("reference-panic {}", ra.class()));
        }
        if ra.class() != rb.class() {
            return Lock::Diverged(Diverge {
                step: i,
                op: op.short(),
                field: "result".into(),
                exp: ra.brief(),
                act: rb.brief(),
            });
        }
        if !matches!(ra, Res::Noop) {
            *compared += 1;
        }
        if let Some(d) = compare_now(a, b, i, &op.short(), skip) {
            return Lock::Diverged(d);
        }
    }
    Lock::Same
}

/// Peer events (observer, external, handler, line) from log index `from`.
/// Notifications for *different* variables within one continue have no
/// specified order (they come out of a hash map), so each run of consecutive
/// observer events is sorted.
pub fn peer_events(h: &Host, from: usize) -> Vec<String> {
    let log = h.log.borrow();
    let mut out: Vec<String> = Vec::new();
    let mut run: Vec<String> = Vec::new();
    for e in log.iter().skip(from) {
        match e {
            crate::host::Ev::Observer { .. } => run.push(e.render()),
            crate::host::Ev::Op { .. } => {}
            crate::host::Ev::External { name, args, ret, .. } => {
                // the host's own line counter is not part of the story's behaviour
                run.sort();
                out.append(&mut run);
                out.push(format!("external {name}({}) -> {ret}", args.join(",")));
            }
            other => {
                run.sort();
                out.append(&mut run);
                out.push(other.render());
            }
        }
    }
    run.sort();
    out.append(&mut run);
    out
}

pub fn obs_fingerprint(o: &Obs) -> u64 {
    o.digest()
}

pub fn base_result() -> CaseResult {
    CaseResult::default()
}

// ------------------------------------------------------------ program choice

#[derive(Clone)]
pub struct GenProfile {
    /// out of 100: how often a generated program is used rather than a corpus one
    pub generated_pct: usize,
    pub gcfg: crate::inkgen::GenCfg,
    pub max_json: usize,
}

impl GenProfile {
    pub fn general() -> GenProfile {
        GenProfile { generated_pct: 60, gcfg: crate::inkgen::GenCfg::general(), max_json: 60_000 }
    }
}

pub fn pick_program(corpus: &crate::corpus::Corpus, rng: &mut crate::rng::Rng, prof: &GenProfile) -> Option<Program> {
    if rng.below(100) < prof.generated_pct {
        let mut g = prof.gcfg.clone();
        g.swarm(rng);
        crate::inkgen::generate(rng, &g)
    } else {
        let c: Vec<&Program> = corpus.programs.iter().filter(|p| p.json.len() <= prof.max_json).collect();
        if c.is_empty() {
            return None;
        }
        Some((*rng.pick(&c)).clone())
    }
}

pub fn default_host(prog: &Program, rng: &mut crate::rng::Rng) -> HostCfg {
    let mut cfg = HostCfg::default();
    cfg.handler = rng.chance(1, 2);
    cfg.fallbacks = rng.chance(1, 2);
    cfg.ext_ret = 0;
    for (name, _) in &prog.info.externals {
        cfg.bindings.push((name.clone(), rng.chance(1, 2)));
    }
    let n = rng.below(3);
    for _ in 0..n {
        if !prog.info.globals.is_empty() {
            let g = rng.pick(&prog.info.globals).clone();
            let o = rng.below(3) as u8;
            if !cfg.observers.iter().any(|x| x.0 == o && x.1 == g) {
                cfg.observers.push((o, g));
            }
        }
    }
    cfg
}
