//! Seeded host-call histories. Ops are total, so scripts are generated
//! without looking at the story state and any subsequence is still a script.
use crate::model::*;
use crate::rng::Rng;

#[derive(Clone, Default)]
pub struct ScriptCfg {
    pub beats: usize,
    pub flows: bool,
    pub jumps: bool,
    pub evals: bool,
    pub setvars: bool,
    pub observers: bool,
    pub saves: bool,
    pub resets: bool,
    pub continue_max: bool,
    /// also jump into function knots (abuse; C04 only)
    pub jump_functions: bool,
    /// evaluate_function on knots and tunnels too (abuse; C04 only)
    pub eval_any_knot: bool,
}

pub fn rand_val(rng: &mut Rng) -> Val {
    match rng.below(6) {
        0 => Val::Bool(rng.chance(1, 2)),
        1 => Val::Int(rng.range(-3, 12) as i32),
        2 => Val::Int(*rng.pick(&[0, 1, -1, i32::MAX, i32::MIN, 7])),
        3 => Val::Float(*rng.pick(&[0.0, 0.5, -2.25, 3.0, 1e9])),
        4 => Val::Str(rng.pick(&["", "x", "héllo", "a b", "\"q\"", "7"]).to_string()),
        _ => Val::Int(rng.range(0, 5) as i32),
    }
}

pub fn is_function(prog: &Program, knot: &str) -> bool {
    prog.info.functions.iter().any(|f| f == knot)
        || (prog.kind == "generated" && (knot.starts_with("fn") || knot.starts_with("ext") || knot.starts_with("fv_")))
}

pub const FLOW_NAMES: &[&str] = &["fa", "fb", "fc"];

/// One "beat": some continues then a choice, with optional host activity.
pub fn gen_script(rng: &mut Rng, prog: &Program, cfg: &ScriptCfg) -> Vec<Op> {
    let mut ops = Vec::new();
    let info = &prog.info;
    for _ in 0..cfg.beats {
        // host activity before the beat
        if cfg.flows && rng.chance(1, 5) {
            match rng.below(4) {
                0 | 1 => ops.push(Op::SwitchFlow(rng.pick(FLOW_NAMES).to_string())),
                2 => ops.push(Op::SwitchDefault),
                _ => ops.push(Op::RemoveFlow(rng.pick(FLOW_NAMES).to_string())),
            }
            let ks: Vec<&String> = info.knots.iter().filter(|k| cfg.jump_functions || !is_function(prog, k)).collect();
            if !ks.is_empty() && rng.chance(2, 3) {
                ops.push(Op::Jump { path: (*rng.pick(&ks)).clone(), reset: rng.chance(1, 2), args: vec![] });
            }
        }
        if cfg.jumps && rng.chance(1, 8) {
            let mut targets: Vec<&String> = info.knots.iter().filter(|k| cfg.jump_functions || !is_function(prog, k)).collect();
            targets.extend(info.stitches.iter().filter(|k| cfg.jump_functions || !is_function(prog, k.split('.').next().unwrap_or(""))));
            if !targets.is_empty() {
                let t = (*rng.pick(&targets)).clone();
                let nargs = if rng.chance(1, 4) { rng.below(3) } else { 0 };
                let args = (0..nargs).map(|_| rand_val(rng)).collect();
                ops.push(Op::Jump { path: t, reset: rng.chance(1, 2), args });
            }
        }
        if cfg.evals && cfg.eval_any_knot && rng.chance(1, 8) && !info.knots.is_empty() {
            let f = rng.pick(&info.knots).clone();
            let nargs = rng.below(2);
            let args = (0..nargs).map(|_| rand_val(rng)).collect();
            ops.push(Op::Eval { name: f, args });
        }
        if cfg.evals && rng.chance(1, 6) && !info.functions.is_empty() {
            let f = rng.pick(&info.functions).clone();
            let nargs = rng.below(3);
            let args = (0..nargs).map(|_| rand_val(rng)).collect();
            ops.push(Op::Eval { name: f, args });
        }
        if cfg.setvars && rng.chance(1, 5) && !info.globals.is_empty() {
            let g = rng.pick(&info.globals).clone();
            if rng.chance(1, 4) {
                let g2 = rng.pick(&info.globals).clone();
                ops.push(Op::CopyVar { from: g2, to: g });
            } else {
                ops.push(Op::SetVar { name: g, val: rand_val(rng) });
            }
        }
        if cfg.observers && rng.chance(1, 5) && !info.globals.is_empty() {
            let g = rng.pick(&info.globals).clone();
            let o = rng.below(3) as u8;
            if rng.chance(2, 3) {
                ops.push(Op::Observe { obs: o, var: g });
            } else {
                ops.push(Op::Unobserve { obs: o, var: if rng.chance(1, 2) { Some(g) } else { None } });
            }
        }
        if cfg.saves && rng.chance(1, 6) {
            let slot = rng.below(2) as u8;
            ops.push(Op::Save(slot));
            if rng.chance(1, 2) {
                ops.push(if rng.chance(1, 2) { Op::CrashRestore(slot) } else { Op::Load(slot) });
            }
        }
        if cfg.resets && rng.chance(1, 12) {
            ops.push(Op::Reset);
        }
        // the beat
        if cfg.continue_max && rng.chance(1, 3) {
            ops.push(Op::ContinueMax);
        } else {
            let k = 1 + rng.below(4);
            for _ in 0..k {
                ops.push(Op::Continue);
            }
        }
        ops.push(Op::Choose(rng.below(6) as u32));
    }
    ops
}

/// A plain continuation tail: continue / choose only.
pub fn gen_tail(rng: &mut Rng, beats: usize) -> Vec<Op> {
    let mut ops = Vec::new();
    for _ in 0..beats {
        let k = 1 + rng.below(3);
        for _ in 0..k {
            ops.push(Op::Continue);
        }
        ops.push(Op::Choose(rng.below(5) as u32));
    }
    ops
}

/// In a quarter of the scripts the host changes its mind about an external function in mid-story:
/// it unbinds one and, half of the time, binds it again later.
pub fn sprinkle_binding_changes(rng: &mut Rng, prog: &Program, ops: &mut Vec<Op>) {
    if prog.info.externals.is_empty() || ops.is_empty() || !rng.chance(1, 4) {
        return;
    }
    let name = rng.pick(&prog.info.externals).0.clone();
    let at = rng.below(ops.len());
    ops.insert(at, Op::Unbind { name: name.clone() });
    if rng.chance(1, 2) {
        let at2 = at + 1 + rng.below(ops.len() - at);
        ops.insert(at2, Op::Bind { name, safe: rng.chance(1, 2) });
    }
}
