//! Seeded generator of Ink programs the repository's compiler accepts.
//!
//! Every text line, choice, tag and gather carries a unique marker
//! (`K2L7`), so every observation is attributable to one program site.
//! Control flow is forward-only between knots (plus counter-guarded loops), so
//! programs terminate; fuel bounds whatever does not.
use crate::corpus::compile_source;
use crate::model::Program;
use crate::rng::Rng;

#[derive(Clone, Debug)]
pub struct GenCfg {
    pub knots: usize,
    pub stmts: usize,
    pub globals: bool,
    pub strings: bool,
    pub lists: bool,
    pub consts: bool,
    pub functions: bool,
    pub tunnels: bool,
    pub threads: bool,
    pub choices: bool,
    pub conditionals: bool,
    pub sequences: bool,
    pub shuffles: bool,
    pub glue: bool,
    pub tags: bool,
    pub temps: bool,
    pub externals: bool,
    pub random: bool,
    pub read_counts: bool,
    pub stitches: bool,
    pub loops: bool,
    /// zero divisors in variables, i32 extremes, void operands, bad divert variables ...
    pub fault_prone: bool,
    /// warning / error sites with unique identifiers (C13)
    pub message_sites: bool,
    /// assignments placed around line ends (C11)
    pub assign_heavy: bool,
    /// external calls in every position (C12)
    pub external_heavy: bool,
    /// hostile characters in text (C20)
    pub hostile_text: bool,
    /// equal item values inside one list and across lists (hash-order sensitive: C03 only)
    pub list_ties: bool,
    /// constants defined through earlier constants, two levels deep (C03 only: the compiler does not
    /// resolve them, the story prints defaults - but it must do so identically for every compilation)
    pub const_chains: bool,
    /// half of the EXTERNAL declarations get no Ink fallback function (C04: an unbound call then has
    /// nothing to fall back on, whatever the host allows)
    pub ext_without_fallback: bool,
    /// prefix of every identifier (several generated programs can be merged into one: C10)
    pub prefix: String,
    /// TURNS_SINCE in conditions (the turn index is shared by all flows)
    pub turns: bool,
    /// keep swarm() from toggling
    pub fixed: bool,
}

impl GenCfg {
    pub fn general() -> GenCfg {
        GenCfg {
            knots: 3,
            stmts: 5,
            globals: true,
            strings: true,
            lists: true,
            consts: true,
            functions: true,
            tunnels: true,
            threads: true,
            choices: true,
            conditionals: true,
            sequences: true,
            shuffles: false,
            glue: true,
            tags: true,
            temps: true,
            externals: false,
            random: false,
            read_counts: true,
            stitches: true,
            loops: true,
            fault_prone: false,
            message_sites: false,
            assign_heavy: false,
            external_heavy: false,
            hostile_text: false,
            list_ties: false,
            const_chains: false,
            ext_without_fallback: false,
            prefix: String::new(),
            turns: true,
            fixed: false,
        }
    }

    /// Swarm configuration: each run enables a random subset of features.
    pub fn swarm(&mut self, rng: &mut Rng) {
        if self.fixed {
            return;
        }
        self.knots = 1 + rng.below(4);
        self.stmts = 2 + rng.below(6);
        let mut t = |on: &mut bool, num: usize, den: usize| {
            if *on {
                *on = rng.chance(num, den);
            }
        };
        t(&mut self.strings, 2, 3);
        t(&mut self.lists, 1, 2);
        t(&mut self.consts, 1, 3);
        t(&mut self.functions, 2, 3);
        t(&mut self.tunnels, 1, 2);
        t(&mut self.threads, 1, 3);
        t(&mut self.choices, 4, 5);
        t(&mut self.conditionals, 2, 3);
        t(&mut self.sequences, 1, 2);
        t(&mut self.shuffles, 1, 2);
        t(&mut self.glue, 1, 2);
        t(&mut self.tags, 1, 2);
        t(&mut self.temps, 1, 2);
        t(&mut self.externals, 1, 2);
        t(&mut self.random, 1, 2);
        t(&mut self.read_counts, 1, 2);
        t(&mut self.stitches, 1, 2);
        t(&mut self.loops, 1, 2);
    }
}

struct G<'a> {
    rng: &'a mut Rng,
    cfg: GenCfg,
    out: String,
    marker: usize,
    knot: usize,
    ints: Vec<String>,
    bools: Vec<String>,
    strs: Vec<String>,
    list_vars: Vec<String>,
    /// (list name, items)
    lists: Vec<(String, Vec<String>)>,
    consts: Vec<String>,
    funcs: Vec<(String, usize, bool)>, // name, argc, prints text
    /// functions with one `ref` parameter that print two lines around an assignment through it
    ref_funcs: Vec<String>,
    tunnels: Vec<String>,
    threads: Vec<String>,
    externals: Vec<(String, usize)>,
    /// externals used only inside strings and choice text
    str_externals: Vec<(String, usize)>,
    knots: Vec<String>,
    temps: Vec<String>,
    msg_id: usize,
    divert_vars: Vec<String>,
    wraps: Vec<(usize, i64, i64)>,
    /// inside code that can run more than once (tunnels, threads, functions)
    in_shared: bool,
}

const HOSTILE: &[&str] = &["\"quoted\"", "back\\\\slash", "tab\there", "caf\u{e9} \u{4f60}\u{597d}", "emoji \u{1F600}", "brace\\{x\\}", "a \\| b", "ctl\u{1}x", "nul-ish \u{7f}"];

impl<'a> G<'a> {
    fn m(&mut self) -> String {
        self.marker += 1;
        format!("{}K{}L{}", self.cfg.prefix, self.knot, self.marker)
    }

    fn line(&mut self, indent: usize, s: &str) {
        for _ in 0..indent {
            self.out.push_str("  ");
        }
        self.out.push_str(s);
        self.out.push('\n');
    }

    fn int_atom(&mut self) -> String {
        let mut pool: Vec<String> = self.ints.clone();
        pool.extend(self.temps.iter().cloned());
        if self.cfg.consts {
            pool.extend(self.consts.iter().cloned());
        }
        if !pool.is_empty() && self.rng.chance(3, 5) {
            return self.rng.pick(&pool).clone();
        }
        if self.cfg.fault_prone && self.rng.chance(1, 6) {
            return self.rng.pick(&["2147483647", "-2147483647", "0", "65536", "46341"]).to_string();
        }
        format!("{}", self.rng.range(0, 9))
    }

    fn int_expr(&mut self, depth: usize) -> String {
        if depth == 0 || self.rng.chance(2, 5) {
            if self.cfg.read_counts && !self.knots.is_empty() && self.rng.chance(1, 8) {
                return self.rng.pick(&self.knots).clone();
            }
            if self.cfg.random && self.rng.chance(1, 8) {
                return format!("RANDOM(1, {})", self.rng.range(1, 6));
            }
            if self.cfg.functions && self.rng.chance(1, 8) {
                // also functions that print lines: the host can then stop inside the call with an
                // operand of the surrounding expression still waiting on the evaluation stack
                let any = self.rng.chance(1, 3);
                let fs: Vec<(String, usize, bool)> = self.funcs.iter().filter(|f| any || !f.2).cloned().collect();
                if !fs.is_empty() {
                    let f = self.rng.pick(&fs).clone();
                    let args: Vec<String> = (0..f.1).map(|_| self.int_atom()).collect();
                    return format!("{}({})", f.0, args.join(", "));
                }
            }
            if self.cfg.lists && !self.list_vars.is_empty() && self.rng.chance(1, 10) {
                let lv = self.rng.pick(&self.list_vars).clone();
                return format!("LIST_COUNT({lv})");
            }
            return self.int_atom();
        }
        let a = self.int_expr(depth - 1);
        let b = self.int_expr(depth - 1);
        let ops: &[&str] = if self.cfg.fault_prone { &["+", "-", "*", "/", "%", "*", "+"] } else { &["+", "-", "*", "+"] };
        let op = *self.rng.pick(ops);
        if !self.cfg.fault_prone && self.rng.chance(1, 6) {
            // safe division by a non-zero literal
            let d = self.rng.range(1, 5);
            let o = self.rng.pick(&["/", "%"]);
            return format!("({a} {o} {d})");
        }
        format!("({a} {op} {b})")
    }

    fn cond(&mut self) -> String {
        match self.rng.below(8) {
            0 if !self.bools.is_empty() => self.rng.pick(&self.bools).clone(),
            1 if !self.bools.is_empty() => format!("not {}", self.rng.pick(&self.bools)),
            2 if self.cfg.read_counts && !self.knots.is_empty() => {
                let k = self.rng.pick(&self.knots).clone();
                if self.rng.chance(1, 2) { k } else { format!("not {k}") }
            }
            3 if self.cfg.lists && !self.list_vars.is_empty() && !self.lists.is_empty() => {
                let lv = self.rng.pick(&self.list_vars).clone();
                let l = self.rng.pick(&self.lists).clone();
                let it = self.rng.pick(&l.1).clone();
                let _ = &l.0;
                if self.rng.chance(1, 2) { format!("{lv} ? {it}") } else { format!("{lv} !? {it}") }
            }
            4 if self.cfg.read_counts && self.cfg.turns && !self.knots.is_empty() => {
                format!("TURNS_SINCE(-> {}) >= {}", self.rng.pick(&self.knots), self.rng.range(0, 2))
            }
            5 => format!("CHOICE_COUNT() == {}", self.rng.range(0, 2)),
            _ => {
                let a = self.int_expr(1);
                let b = self.int_atom();
                let op = *self.rng.pick(&[">", "<", "==", "!=", ">=", "<="]);
                format!("{a} {op} {b}")
            }
        }
    }

    fn tag(&mut self) -> String {
        if self.cfg.tags && self.rng.chance(1, 3) {
            let m = self.m();
            if self.cfg.hostile_text && self.rng.chance(1, 2) {
                format!(" # t{m} {}", self.rng.pick(HOSTILE))
            } else {
                format!(" # t{m}")
            }
        } else {
            String::new()
        }
    }

    fn inline_bits(&mut self) -> String {
        let mut s = String::new();
        let n = self.rng.below(3);
        for _ in 0..n {
            match self.rng.below(9) {
                0 if !self.ints.is_empty() || !self.temps.is_empty() => {
                    let e = self.int_expr(1);
                    s.push_str(&format!(" v={{{e}}}"));
                }
                1 if self.cfg.strings && !self.strs.is_empty() => {
                    let v = self.rng.pick(&self.strs).clone();
                    s.push_str(&format!(" s={{{v}}}"));
                }
                2 if self.cfg.conditionals => {
                    let c = self.cond();
                    let m = self.m();
                    s.push_str(&format!(" {{{c}:y{m}|n{m}}}"));
                }
                3 if self.cfg.sequences => {
                    let m = self.m();
                    let kind = if self.cfg.shuffles && self.rng.chance(1, 3) {
                        "~"
                    } else {
                        *self.rng.pick(&["", "&", "!"])
                    };
                    s.push_str(&format!(" {{{kind}a{m}|b{m}|c{m}}}"));
                }
                4 if self.cfg.functions && !self.funcs.is_empty() => {
                    let f = self.rng.pick(&self.funcs).clone();
                    let args: Vec<String> = (0..f.1).map(|_| self.int_atom()).collect();
                    s.push_str(&format!(" f={{{}({})}}", f.0, args.join(", ")));
                }
                5 if self.cfg.lists && !self.list_vars.is_empty() => {
                    let lv = self.rng.pick(&self.list_vars).clone();
                    let f = *self.rng.pick(&["", "LIST_MAX", "LIST_MIN", "LIST_COUNT", "LIST_ALL", "LIST_INVERT", "LIST_VALUE", "LIST_RANDOM", "LIST_MAX", "LIST_MIN"]);
                    let f = if f == "LIST_RANDOM" && !self.cfg.random { "LIST_COUNT" } else { f };
                    if f.is_empty() {
                        s.push_str(&format!(" l={{{lv}}}"));
                    } else {
                        s.push_str(&format!(" l={{{f}({lv})}}"));
                    }
                }
                6 if self.cfg.externals && !self.cfg.external_heavy && !self.externals.is_empty() => {
                    let e = self.rng.pick(&self.externals).clone();
                    let args: Vec<String> = (0..e.1).map(|_| self.int_atom()).collect();
                    s.push_str(&format!(" x={{{}({})}}", e.0, args.join(", ")));
                }
                7 if self.cfg.hostile_text => {
                    s.push(' ');
                    let h = *self.rng.pick(HOSTILE); s.push_str(h);
                }
                _ => {}
            }
        }
        s
    }

    fn text_line(&mut self, indent: usize) {
        let m = self.m();
        let bits = self.inline_bits();
        let tag = self.tag();
        let glue_l = if self.cfg.glue && self.rng.chance(1, 8) { "<> " } else { "" };
        let glue_r = if self.cfg.glue && self.rng.chance(1, 8) { " <>" } else { "" };
        let s = format!("{glue_l}{m} text{bits}{glue_r}{tag}");
        self.line(indent, &s);
    }

    fn assign(&mut self, indent: usize) {
        match self.rng.below(8) {
            0 | 1 | 2 if !self.ints.is_empty() => {
                let v = self.rng.pick(&self.ints).clone();
                let e = self.int_expr(2);
                let s = match self.rng.below(4) {
                    0 => format!("~ {v} += {}", self.int_atom()),
                    1 => format!("~ {v} -= {}", self.int_atom()),
                    2 => format!("~ {v}++"),
                    _ => format!("~ {v} = {e}"),
                };
                self.line(indent, &s);
            }
            3 if !self.bools.is_empty() => {
                let v = self.rng.pick(&self.bools).clone();
                let c = self.cond();
                self.line(indent, &format!("~ {v} = {c}"));
            }
            4 if self.cfg.strings && !self.strs.is_empty() => {
                let v = self.rng.pick(&self.strs).clone();
                let m = self.m();
                if self.rng.chance(1, 3) && !self.ints.is_empty() {
                    let i = self.rng.pick(&self.ints).clone();
                    self.line(indent, &format!("~ {v} = \"s{m}-{{{i}}}\""));
                } else {
                    self.line(indent, &format!("~ {v} = \"s{m}\""));
                }
            }
            5 if self.cfg.lists && !self.list_vars.is_empty() && !self.lists.is_empty() => {
                let lv = self.rng.pick(&self.list_vars).clone();
                let l = self.rng.pick(&self.lists).clone();
                let it = self.rng.pick(&l.1).clone();
                let l2 = self.rng.pick(&self.lists).clone();
                let it2 = self.rng.pick(&l2.1).clone();
                let lv2 = self.rng.pick(&self.list_vars).clone();
                let s = match self.rng.below(10) {
                    0 => format!("~ {lv} += {it}"),
                    1 => format!("~ {lv} -= {it}"),
                    2 => format!("~ {lv} = ({it}, {it2})"),
                    3 => format!("~ {lv} = LIST_ALL({lv})"),
                    4 => format!("~ {lv} = ()"),
                    5 => format!("~ {lv} += ({it}, {it2})"),
                    6 => format!("~ {lv} = {lv} + {lv2}"),
                    7 => format!("~ {lv} = LIST_INVERT({lv})"),
                    8 => format!("~ {lv} = {lv} ^ {lv2}"),
                    _ => format!("~ {lv}++"),
                };
                self.line(indent, &s);
            }
            6 if self.cfg.temps => {
                let t = format!("t{}", self.marker + 1);
                self.marker += 1;
                let e = self.int_expr(1);
                self.line(indent, &format!("~ temp {t} = {e}"));
                self.temps.push(t);
            }
            _ => {
                if !self.ints.is_empty() {
                    let v = self.rng.pick(&self.ints).clone();
                    self.line(indent, &format!("~ {v} = {v} + 1"));
                }
            }
        }
    }

    /// A line whose arithmetic the harness can re-compute: `wrap|a|op|b|result`.
    fn wrap_site(&mut self, indent: usize) {
        let id = self.wraps.len() + 1;
        let ext: &[i64] = &[2147483647, -2147483647, 65536, 46341, -46341, 1, -1, 0, 2, 1073741824, -1073741825];
        let a = *self.rng.pick(ext);
        let b = *self.rng.pick(ext);
        self.wraps.push((id, a, b));
        let m = self.m();
        let op = *self.rng.pick(&["+", "-", "*"]);
        if self.rng.chance(1, 5) {
            if a == -2147483647 {
                // reach i32::MIN (not writable as a literal) so that the negation overflows
                self.line(indent, &format!("~ wa_{id} = wa_{id} - 1"));
            }
            self.line(indent, &format!("{m} wrapneg|{{wa_{id}}}|{{-wa_{id}}}|"));
        } else {
            self.line(indent, &format!("{m} wrap|{{wa_{id}}}|{op}|{{wb_{id}}}|{{wa_{id} {op} wb_{id}}}|"));
        }
    }

    /// Randomness and list arithmetic with extreme operands, void operands next to lists.
    fn random_fault_site(&mut self, indent: usize) {
        let ext: &[&str] = &["2147483647", "-2147483647", "2147483646", "1073741824", "-1073741825", "0", "1", "-1", "65536"];
        let m = self.m();
        let a = *self.rng.pick(ext);
        let b = *self.rng.pick(ext);
        match self.rng.below(10) {
            9 if !self.ref_funcs.is_empty() => {
                // a temporary whose declaration was skipped, handed to a function by reference
                // (read and assigned through the reference there)
                let f = self.rng.pick(&self.ref_funcs).clone();
                self.line(indent, &format!("{{ {a} == 77:"));
                self.line(indent + 1, &format!("~ temp skipped_{m} = 5"));
                self.line(indent, "}");
                self.line(indent, &format!("~ {f}(skipped_{m})"));
                self.line(indent, &format!("{m} after-ref {{skipped_{m}}}"));
            }
            0 => self.line(indent, &format!("~ SEED_RANDOM({a})")),
            1 => self.line(indent, &format!("{m} rnd {{RANDOM({a}, {b})}}")),
            2 => {
                self.line(indent, &format!("~ SEED_RANDOM({a})"));
                self.line(indent, &format!("{m} rnd {{RANDOM(1, 6)}} {{~a{m}|b{m}|c{m}}}"));
            }
            3 if !self.list_vars.is_empty() => {
                let lv = self.rng.pick(&self.list_vars).clone();
                self.line(indent, &format!("{m} lrnd {{LIST_RANDOM({lv})}} {{RANDOM(1, 3)}} {{LIST_RANDOM({lv})}} {{RANDOM({a}, 5)}}"));
            }
            4 if !self.list_vars.is_empty() => {
                let lv = self.rng.pick(&self.list_vars).clone();
                let op = *self.rng.pick(&["+", "-"]);
                if a == "-2147483647" {
                    // i32::MIN has no literal: shifting a list by it must wrap like every other offset
                    self.line(indent, &format!("~ temp lo_{m} = -2147483647 - 1"));
                    self.line(indent, &format!("{m} lincmin {{{lv} {op} lo_{m}}} {{{lv} - lo_{m}}}"));
                } else {
                    self.line(indent, &format!("{m} linc {{{lv} {op} {a}}}"));
                }
            }
            5 if !self.list_vars.is_empty() && !self.funcs.is_empty() => {
                // a list next to a function result (void when the function has no return)
                let lv = self.rng.pick(&self.list_vars).clone();
                let f = self.rng.pick(&self.funcs).clone();
                let args: Vec<String> = (0..f.1).map(|_| self.int_atom()).collect();
                let op = *self.rng.pick(&["+", "-", "==", "!=", "?", "^", ">", "and"]);
                if self.rng.chance(1, 2) {
                    self.line(indent, &format!("{m} lvoid {{{lv} {op} {}({})}}", f.0, args.join(", ")));
                } else {
                    self.line(indent, &format!("{m} voidl {{{}({}) {op} {lv}}}", f.0, args.join(", ")));
                }
            }
            6 if !self.list_vars.is_empty() => {
                let lv = self.rng.pick(&self.list_vars).clone();
                self.line(indent, &format!("{m} lrange {{LIST_RANGE({lv}, {a}, {b})}} {{LIST_VALUE({lv}) + {a}}}"));
            }
            7 => self.line(indent, &format!("{m} pow {{POW({a}, {b})}} {{INT({a}.5)}} {{FLOOR({b})}} {{{a} mod {b}}}")),
            _ => self.line(indent, &format!("{m} minmax {{MIN({a}, {b})}} {{MAX({a}, {b})}} {{{a} - {b}}} {{-({a})}}")),
        }
    }

    fn message_site(&mut self, indent: usize) {
        // a site that raises a warning or an error carrying a unique identifier
        self.msg_id += 1;
        let id = self.msg_id;
        let m = self.m();
        match self.rng.below(9) {
            8 => {
                // the same warning twice in one line: two calls of a function that reads a skipped temporary
                self.line(indent, &format!("{m} dsite d{id} {{fdw_{id}()}} and {{fdw_{id}()}} after"));
            }
            7 if !self.ints.is_empty() => {
                // a warning raised by a statement that prints nothing, right after a line end: it runs in the
                // look-ahead of the line before it, which is kept (end, choices, glue) or rewound (more text)
                let v = self.rng.pick(&self.ints).clone();
                self.line(indent, &format!("{m} pre-silent ws{id}"));
                self.line(indent, &format!("{{ zero_{id} == 1:"));
                self.line(indent + 1, &format!("~ temp us_{id} = 5"));
                self.line(indent, "}");
                self.line(indent, &format!("~ {v} = us_{id}"));
                if self.rng.chance(1, 2) {
                    self.line(indent, &format!("{m} post-silent ws{id}"));
                }
            }
            5 | 6 => {
                // warning: read of a temp whose declaration was never executed
                self.line(indent, &format!("{{ zero_{id} == 1:"));
                self.line(indent + 1, &format!("~ temp u_{id} = 5"));
                self.line(indent, "}");
                self.line(indent, &format!("{m} wsite w{id} {{u_{id}}} after"));
            }
            0 => {
                // error: divert through a variable holding an int
                self.line(indent, &format!("{m} before-err e{id}"));
                let dv = format!("dv_{id}");
                self.divert_vars.push(dv.clone());
                self.line(indent, &format!("-> {dv}"));
            }
            1 => {
                // error: arithmetic on void
                self.line(indent, &format!("{m} voidsite e{id} {{fv_{id}() + 1}}"));
            }
            2 => {
                // warning-free control: plain text
                self.line(indent, &format!("{m} calm e{id}"));
            }
            3 => {
                self.line(indent, &format!("{m} divzero e{id} {{1 / zero_{id}}}"));
            }
            _ => {
                self.line(indent, &format!("{m} modzero e{id} {{7 % zero_{id}}}"));
            }
        }
    }

    /// A call `name(S, a)` whose first argument is the unique site number S; returns
    /// (call text, value the peers and the Ink fallback compute for it).
    fn ext_call(&mut self, pool_str: bool, site: usize) -> Option<(String, i64)> {
        let pool = if pool_str { self.str_externals.clone() } else { self.externals.clone() };
        if pool.is_empty() {
            return None;
        }
        let e = self.rng.pick(&pool).clone();
        let mut args: Vec<i64> = vec![site as i64];
        for _ in 1..e.1 {
            args.push(self.rng.range(0, 9));
        }
        let mut want: i64 = 7;
        for (k, a) in args.iter().enumerate() {
            want += a * 10i64.pow(k as u32);
        }
        let a: Vec<String> = args.iter().map(|x| x.to_string()).collect();
        Some((format!("{}({})", e.0, a.join(", ")), want))
    }

    /// External calls in every syntactic position and around line ends (C12). Every site has a
    /// unique number S that is the call's first argument and appears in the lines around it:
    /// `pre{S}` = a line that ends before the call, `post{S}` = a line that can only be
    /// delivered after the call has run, `want=` = the value the call must have produced.
    fn external_site(&mut self, indent: usize) {
        self.marker += 1;
        let sid = self.marker;
        let m = format!("K{}L{}", self.knot, sid);
        if indent == 0 && self.rng.chance(1, 5) {
            // a labelled gather reached by falling through: what follows lives in a container that is
            // both named and part of its parent's content
            self.line(0, &format!("- (xg{sid})"));
        }
        match self.rng.below(9) {
            8 => {
                // the call is the very first thing on a line that follows a finished line
                if let Some((c, w)) = self.ext_call(false, sid) {
                    self.line(indent, &format!("{m} pre{sid} line"));
                    self.line(indent, &format!("{{{c}}} lead{sid} x={{{w}}} want={w}; post{sid}"));
                }
            }
            0 => {
                if let Some((c, _)) = self.ext_call(false, sid) {
                    self.line(indent, &format!("{m} pre{sid} line"));
                    self.line(indent, &format!("~ {c}"));
                    self.line(indent, &format!("{m} post{sid} line"));
                }
            }
            1 => {
                if let Some((c, w)) = self.ext_call(false, sid) {
                    self.line(indent, &format!("{m} inl{sid} x={{{c}}} want={w}; post{sid}"));
                }
            }
            2 => {
                if let Some((c, w)) = self.ext_call(false, sid) {
                    self.line(indent, &format!("{m} cond{sid} x={{{c} > 20:big|small}} want={}; post{sid}", if w > 20 { "big" } else { "small" }));
                }
            }
            3 => {
                // after glue: the preceding line is not finished, the call may run while it is built
                if let Some((c, w)) = self.ext_call(false, sid) {
                    self.line(indent, &format!("{m} gpre{sid} glued <>"));
                    self.line(indent, &format!("~ {c}"));
                    let _ = w;
                    self.line(indent, &format!("{m} post{sid} tail"));
                }
            }
            4 => {
                if let (Some((c, w)), false) = (self.ext_call(false, sid), self.ints.is_empty()) {
                    let v = self.rng.pick(&self.ints).clone();
                    self.line(indent, &format!("{m} pre{sid} line"));
                    self.line(indent, &format!("~ {v} = {c}"));
                    self.line(indent, &format!("{m} asg{sid} x={{{v}}} want={w}; post{sid}"));
                }
            }
            5 if self.rng.chance(1, 2) => {
                // the call is the first thing inside a tag that opens the line after a finished line
                if let Some((c, w)) = self.ext_call(false, sid) {
                    self.line(indent, &format!("{m} pre{sid} line"));
                    self.line(indent, &format!("# {{{c}}} tg{sid}"));
                    self.line(indent, &format!("{m} tagged{sid} post{sid}"));
                    let _ = w;
                }
            }
            5 | 6 => {
                // inside a string
                if let (Some((c, w)), false) = (self.ext_call(true, sid), self.strs.is_empty()) {
                    let v = self.rng.pick(&self.strs).clone();
                    self.line(indent, &format!("{m} pre{sid} line"));
                    self.line(indent, &format!("~ {v} = \"s-{{{c}}}\""));
                    self.line(indent, &format!("{m} str{sid} x={{{v}}} want=s-{w}; post{sid}"));
                }
            }
            _ => {
                if let Some((c, w)) = self.ext_call(false, sid) {
                    self.line(indent, &format!("{m} inl{sid} x={{{c}}} want={w}; post{sid} <>"));
                    let m2 = self.m();
                    self.line(indent, &format!("{m2} joined"));
                }
            }
        }
    }

    fn statement(&mut self, indent: usize, depth: usize, in_func: bool) {
        if self.cfg.external_heavy && !in_func && !self.in_shared && self.rng.chance(1, 3) {
            self.external_site(indent);
            return;
        }
        if self.cfg.assign_heavy && self.rng.chance(1, 3) {
            // assignments before, between and after line ends
            self.assign(indent);
            if self.rng.chance(1, 2) {
                return;
            }
        }
        if self.cfg.random && !in_func && self.rng.chance(1, 12) {
            // the story re-seeds itself: from here on the seed differs from the one it was constructed with
            let k = self.rng.range(1, 1000);
            self.line(indent, &format!("~ SEED_RANDOM({k})"));
            return;
        }
        let r = self.rng.below(20);
        match r {
            0..=5 => self.text_line(indent),
            6 | 7 => self.assign(indent),
            8 if self.cfg.assign_heavy => {
                self.assign(indent);
                self.text_line(indent);
                self.assign(indent);
            }
            9 if self.cfg.conditionals && depth > 0 => {
                let c = self.cond();
                self.line(indent, &format!("{{ {c}:"));
                let n = 1 + self.rng.below(2);
                for _ in 0..n {
                    self.statement(indent + 1, depth - 1, in_func);
                }
                if self.rng.chance(1, 2) {
                    self.line(indent, "- else:");
                    self.statement(indent + 1, depth - 1, in_func);
                }
                self.line(indent, "}");
            }
            10 if self.cfg.tunnels && !self.tunnels.is_empty() && !in_func => {
                let t = self.rng.pick(&self.tunnels).clone();
                self.line(indent, &format!("-> {t} ->"));
            }
            11 if self.cfg.threads && !self.threads.is_empty() && !in_func && depth > 0 => {
                let t = self.rng.pick(&self.threads).clone();
                self.line(indent, &format!("<- {t}"));
            }
            12 if self.cfg.functions && !self.ref_funcs.is_empty() && !self.ints.is_empty() && !in_func && self.rng.chance(1, 2) => {
                // a live `ref` to a global while the function prints its lines
                let f = self.rng.pick(&self.ref_funcs).clone();
                let v = self.rng.pick(&self.ints).clone();
                self.line(indent, &format!("~ {f}({v})"));
            }
            12 if self.cfg.functions && !self.funcs.is_empty() => {
                let f = self.rng.pick(&self.funcs).clone();
                let args: Vec<String> = (0..f.1).map(|_| self.int_atom()).collect();
                self.line(indent, &format!("~ {}({})", f.0, args.join(", ")));
            }
            13 if self.cfg.externals && !self.cfg.external_heavy && !self.externals.is_empty() => {
                let e = self.rng.pick(&self.externals).clone();
                let args: Vec<String> = (0..e.1).map(|_| self.int_atom()).collect();
                if self.rng.chance(1, 2) && !self.ints.is_empty() {
                    let v = self.rng.pick(&self.ints).clone();
                    self.line(indent, &format!("~ {v} = {}({})", e.0, args.join(", ")));
                } else {
                    self.line(indent, &format!("~ {}({})", e.0, args.join(", ")));
                }
            }
            14 if self.cfg.sequences && depth > 0 && !in_func => {
                let kind = if self.cfg.shuffles && self.rng.chance(1, 3) {
                    "shuffle"
                } else {
                    *self.rng.pick(&["stopping", "cycle", "once"])
                };
                self.line(indent, &format!("{{ {kind}:"));
                let n = 2 + self.rng.below(2);
                for _ in 0..n {
                    let m = self.m();
                    self.line(indent + 1, &format!("- {m} seq"));
                }
                self.line(indent, "}");
            }
            15 | 18 if self.cfg.message_sites && !in_func && !self.in_shared => self.message_site(indent),
            17 if self.cfg.fault_prone && !in_func => self.wrap_site(indent),
            19 if self.cfg.fault_prone => self.random_fault_site(indent),
            16 if self.cfg.glue => {
                let m = self.m();
                self.line(indent, &format!("{m} glued <>"));
                let m2 = self.m();
                self.line(indent, &format!("{m2} tail"));
            }
            _ => self.text_line(indent),
        }
    }

    fn choice_block(&mut self, next: &str) {
        // a weave: 2-4 choices then a gather
        let n = 2 + self.rng.below(3);
        let mut has_fallback = false;
        for i in 0..n {
            let m = self.m();
            let sticky = self.rng.chance(1, 3);
            let star = if sticky { "+" } else { "*" };
            let label = if self.rng.chance(1, 5) { format!(" (c{m})") } else { String::new() };
            let cond = if self.cfg.conditionals && self.rng.chance(1, 4) { format!(" {{{}}}", self.cond()) } else { String::new() };
            let tag = self.tag();
            if i == n - 1 && !has_fallback && self.rng.chance(1, 4) {
                // fallback choice
                has_fallback = true;
                self.line(0, &format!("{star} -> {next}"));
                continue;
            }
            let body = match self.rng.below(4) {
                0 => format!("[{m} only]"),
                1 => format!("{m} start [mid] end"),
                2 => format!("{m} plain"),
                _ => format!("{m} pre[in]"),
            };
            let mut bits = if self.rng.chance(1, 4) { self.inline_bits() } else { String::new() };
            let mut body = body;
            if self.cfg.external_heavy && self.rng.chance(1, 5) {
                self.marker += 1;
                let sid = self.marker;
                if let Some((c, w)) = self.ext_call(true, sid) {
                    // choice-only text (inside the brackets): evaluated as a string, once, when the choice is offered
                    body = format!("[{m} only chc{sid} x={{{c}}} want={w};]");
                    bits = String::new();
                }
            }
            let divert = match self.rng.below(6) {
                0 => format!(" -> {next}"),
                1 if !self.tunnels.is_empty() && self.cfg.tunnels => String::new(),
                _ => String::new(),
            };
            self.line(0, &format!("{star}{label}{cond} {body}{bits}{tag}{divert}"));
            if divert.is_empty() {
                let k = self.rng.below(3);
                for _ in 0..k {
                    self.statement(1, 1, false);
                }
                if self.rng.chance(1, 6) {
                    // one nested level
                    let m1 = self.m();
                    let m2 = self.m();
                    self.line(1, &format!("* * {m1} nested a"));
                    self.line(2, &format!("{m1} after nested a"));
                    self.line(1, &format!("* * {m2} nested b"));
                    self.line(1, &format!("- - {m2} inner gather"));
                }
            }
        }
        let m = self.m();
        let label = if self.rng.chance(1, 4) { format!("(g{m}) ") } else { String::new() };
        self.line(0, &format!("- {label}{m} gather"));
    }

    fn knot_body(&mut self, next: &str, allow_choices: bool) {
        if self.cfg.threads && !self.threads.is_empty() && !self.in_shared && self.rng.chance(1, 3) {
            // fork a thread early: the host then stops line by line inside the forked thread
            let t = self.rng.pick(&self.threads).clone();
            if self.rng.chance(1, 2) {
                self.text_line(0);
            }
            self.line(0, &format!("<- {t}"));
            // sometimes a second thread right behind it: the first has finished (its choices are pending)
            // while the host stops inside the second, or inside a thread the second forks in turn
            if self.threads.len() >= 2 && self.rng.chance(1, 2) {
                let t2 = self.rng.pick(&self.threads).clone();
                self.line(0, &format!("<- {t2}"));
            }
        }
        let n = 1 + self.rng.below(self.cfg.stmts.max(1));
        for _ in 0..n {
            if allow_choices && self.cfg.choices && self.rng.chance(1, 4) {
                self.choice_block(next);
            } else {
                self.statement(0, 2, false);
            }
        }
    }
}

/// Generate one program. `None` if the compiler rejected it (counted by callers).
pub fn generate(rng: &mut Rng, cfg: &GenCfg) -> Option<Program> {
    let src = render(rng, cfg);
    match compile_source(&src, None) {
        Ok(json) => Program::from_json("generated", &format!("gen-{:08x}", crate::rng::fnv(&src) as u32), Some(src), json),
        Err(_) => None,
    }
}

pub fn generate_verbose(rng: &mut Rng, cfg: &GenCfg) -> (String, Result<Program, String>) {
    let src = render(rng, cfg);
    let r = match compile_source(&src, None) {
        Ok(json) => Program::from_json("generated", &format!("gen-{:08x}", crate::rng::fnv(&src) as u32), Some(src.clone()), json)
            .ok_or_else(|| "compiled JSON does not parse".to_string()),
        Err(e) => Err(e),
    };
    (src, r)
}

pub fn render(rng: &mut Rng, cfg: &GenCfg) -> String {
    let mut g = G {
        rng,
        cfg: cfg.clone(),
        out: String::new(),
        marker: 0,
        knot: 0,
        ints: vec![],
        bools: vec![],
        strs: vec![],
        list_vars: vec![],
        lists: vec![],
        consts: vec![],
        funcs: vec![],
        ref_funcs: vec![],
        tunnels: vec![],
        threads: vec![],
        externals: vec![],
        str_externals: vec![],
        knots: vec![],
        temps: vec![],
        msg_id: 0,
        divert_vars: vec![],
        wraps: vec![],
        in_shared: false,
    };
    // ---- declarations
    if g.cfg.globals {
        let n = 1 + g.rng.below(4);
        for i in 0..n {
            let v = format!("{}gi{i}", g.cfg.prefix);
            let init = if g.cfg.fault_prone && g.rng.chance(1, 3) { 0 } else { g.rng.range(0, 5) };
            g.line(0, &format!("VAR {v} = {init}"));
            g.ints.push(v);
        }
        let n = g.rng.below(3);
        for i in 0..n {
            let v = format!("{}gb{i}", g.cfg.prefix);
            let b = g.rng.chance(1, 2);
            g.line(0, &format!("VAR {v} = {b}"));
            g.bools.push(v);
        }
        if g.cfg.strings {
            let n = 1 + g.rng.below(2);
            for i in 0..n {
                let v = format!("{}gs{i}", g.cfg.prefix);
                g.line(0, &format!("VAR {v} = \"str{i}\""));
                g.strs.push(v);
            }
        }
    }
    if g.cfg.loops {
        g.line(0, &format!("VAR {}loopc = 0", g.cfg.prefix));
    }
    if g.cfg.consts {
        let n = 1 + g.rng.below(2);
        for i in 0..n {
            let c = format!("{}CK{i}", g.cfg.prefix);
            let v = g.rng.range(1, 9);
            g.line(0, &format!("CONST {c} = {v}"));
            g.consts.push(c);
        }
        if g.cfg.const_chains && g.rng.chance(1, 2) {
            let p = g.cfg.prefix.clone();
            g.line(0, &format!("CONST {p}CKb = {p}CK0 + 1"));
            g.line(0, &format!("CONST {p}CKc = {p}CKb * 2"));
            g.line(0, &format!("CONST {p}CKd = {p}CKc + {p}CKb"));
            for c in ["CKb", "CKc", "CKd"] {
                g.consts.push(format!("{p}{c}"));
            }
        }
    }
    if g.cfg.lists {
        let nl = 1 + g.rng.below(3);
        for i in 0..nl {
            let name = format!("{}L{i}", g.cfg.prefix);
            let ni = 2 + g.rng.below(3);
            let mut items: Vec<String> = (0..ni).map(|k| format!("{}i{i}{}", g.cfg.prefix, (b'a' + k as u8) as char)).collect();
            if g.cfg.list_ties && g.rng.chance(1, 2) {
                // the same bare item name in several lists: which list a bare `dup` means must not depend on hash order
                items.push(format!("{}dup", g.cfg.prefix));
            }
            // with `list_ties` items share values inside a list and across lists; otherwise every
            // item of the program has its own value (list i uses i*10+1 ..)
            let ties = g.cfg.list_ties;
            let decl: Vec<String> = items
                .iter()
                .enumerate()
                .map(|(k, it)| {
                    let on = g.rng.chance(1, 3);
                    let val = if ties && it.ends_with("dup") {
                        // the same name with the same value in several lists: a tie no item key can break
                        " = 2".to_string()
                    } else if ties {
                        if g.rng.chance(1, 4) { format!(" = {}", 1 + k / 2) } else { String::new() }
                    } else if k == 0 {
                        format!(" = {}", i * 10 + 1)
                    } else {
                        String::new()
                    };
                    if on { format!("({it}{val})") } else { format!("{it}{val}") }
                })
                .collect();
            g.line(0, &format!("LIST {name} = {}", decl.join(", ")));
            g.lists.push((name.clone(), items));
            g.list_vars.push(name);
        }
        let nv = 1 + g.rng.below(2);
        for i in 0..nv {
            let v = format!("{}lv{i}", g.cfg.prefix);
            // list literals in a VAR initialiser are not resolved by the repository's
            // compiler (origin-less items); only `()` and a single bare item are used here
            let a = g.rng.pick(&g.lists).clone();
            let ia = g.rng.pick(&a.1).clone();
            if g.rng.chance(1, 3) {
                g.line(0, &format!("VAR {v} = ()"));
            } else {
                g.line(0, &format!("VAR {v} = {ia}"));
            }
            g.list_vars.push(v);
        }
    }
    if g.cfg.externals {
        let n = 1 + g.rng.below(2);
        for i in 0..n {
            let name = format!("{}ext{i}", g.cfg.prefix);
            let argc = if g.cfg.external_heavy { 1 + g.rng.below(2) } else { g.rng.below(3) };
            let params: Vec<String> = (0..argc).map(|k| format!("p{k}")).collect();
            g.line(0, &format!("EXTERNAL {name}({})", params.join(", ")));
            g.externals.push((name, argc));
        }
        if g.cfg.external_heavy {
            let argc = 1 + g.rng.below(2);
            let params: Vec<String> = (0..argc).map(|k| format!("p{k}")).collect();
            g.line(0, &format!("EXTERNAL exts0({})", params.join(", ")));
            g.str_externals.push(("exts0".to_string(), argc));
            let all: Vec<String> = g.externals.iter().chain(g.str_externals.iter()).map(|e| e.0.clone()).collect();
            for n in all {
                g.line(0, &format!("VAR extcount_{n} = 0"));
            }
        }
    }
    // names of later sections (so earlier ones can refer to them)
    let nk = g.cfg.knots.max(1);
    let knot_names: Vec<String> = (0..nk).map(|i| format!("{}k{i}", g.cfg.prefix)).collect();
    let nf = if g.cfg.functions { 1 + g.rng.below(3) } else { 0 };
    for i in 0..nf {
        let argc = g.rng.below(3);
        let prints = g.rng.chance(1, 2);
        g.funcs.push((format!("{}fn{i}", g.cfg.prefix), argc, prints));
    }
    if g.cfg.functions && !g.ints.is_empty() && g.rng.chance(1, 2) {
        g.ref_funcs.push(format!("{}fnr0", g.cfg.prefix));
    }
    let nt = if g.cfg.tunnels { 1 + g.rng.below(2) } else { 0 };
    for i in 0..nt {
        g.tunnels.push(format!("{}tun{i}", g.cfg.prefix));
    }
    let nth = if g.cfg.threads { 1 + g.rng.below(3) } else { 0 };
    for i in 0..nth {
        g.threads.push(format!("{}thr{i}", g.cfg.prefix));
    }
    g.knots = knot_names.clone();

    // ---- top-level preamble
    if g.cfg.tags && g.rng.chance(1, 3) {
        g.line(0, "# global_tag_one");
    }
    if g.rng.chance(1, 2) {
        g.knot = 99;
        let n = 1 + g.rng.below(2);
        for _ in 0..n {
            g.text_line(0);
        }
    }
    {
        // lists that share the item `dup` (list_ties mode): a value holding both, drawn from at random,
        // the draw stored and asked for its origin
        let p = g.cfg.prefix.clone();
        let shared: Vec<String> = g.lists.iter().filter(|l| l.1.iter().any(|it| it.ends_with("dup"))).map(|l| l.0.clone()).collect();
        if g.cfg.list_ties && g.cfg.random && shared.len() >= 2 {
            let v = format!("{p}lv0");
            g.knot = 98;
            let m = g.m();
            g.line(0, &format!("~ {v} = LIST_ALL({}) + LIST_ALL({})", shared[0], shared[1]));
            g.line(0, &format!("{m} tie all={{{v}}} draw={{LIST_RANDOM({v})}}"));
            if g.rng.chance(1, 2) {
                // emptied while it holds items of both lists: the empty value remembers two origins
                g.line(0, &format!("~ {v} = ()"));
                g.line(0, &format!("{m} tie emptied of={{LIST_ALL({v})}} inv={{LIST_INVERT({v})}}"));
            } else {
                g.line(0, &format!("~ {v} = LIST_RANDOM({v})"));
                g.line(0, &format!("{m} tie kept={{{v}}} of={{LIST_ALL({v})}} inv={{LIST_INVERT({v})}}"));
            }
        }
    }
    g.line(0, &format!("-> {}", knot_names[0]));
    g.line(0, "");

    // ---- knots
    for (i, k) in knot_names.iter().enumerate() {
        g.knot = i;
        g.temps.clear();
        g.line(0, &format!("=== {k} ==="));
        let next = if i + 1 < nk { knot_names[i + 1].clone() } else { "END".to_string() };
        if g.cfg.tags && g.rng.chance(1, 4) {
            let m = g.m();
            g.line(0, &format!("# knot_tag_{m}"));
        }
        g.knot_body(&next, true);
        if g.cfg.stitches && g.rng.chance(1, 3) {
            let st = format!("st{i}");
            g.line(0, &format!("-> {k}.{st}"));
            g.line(0, &format!("= {st}"));
            g.temps.clear();
            g.knot_body(&next, true);
        }
        if g.cfg.loops && i > 0 && g.rng.chance(1, 4) {
            let back = knot_names[g.rng.below(i + 1)].clone();
            g.line(0, &format!("{{ {}loopc < 2:", g.cfg.prefix));
            g.line(1, &format!("~ {p}loopc = {p}loopc + 1", p = g.cfg.prefix));
            g.line(1, &format!("-> {back}"));
            g.line(0, "}");
        }
        // leave the knot
        if g.rng.chance(1, 8) && next != "END" {
            g.line(0, "-> DONE");
        } else {
            g.line(0, &format!("-> {next}"));
        }
        g.line(0, "");
    }

    // ---- tunnels
    g.in_shared = true;
    let tunnels = g.tunnels.clone();
    for (i, t) in tunnels.iter().enumerate() {
        g.knot = 50 + i;
        g.temps.clear();
        g.line(0, &format!("=== {t} ==="));
        let saved_tunnels = std::mem::take(&mut g.tunnels);
        // a tunnel may call later tunnels only (no recursion)
        g.tunnels = saved_tunnels[i + 1..].to_vec();
        let n = 1 + g.rng.below(3);
        for _ in 0..n {
            g.statement(0, 1, false);
        }
        if g.cfg.choices && g.rng.chance(1, 4) {
            let m = g.m();
            g.line(0, &format!("* {m} tunnel choice a"));
            g.line(0, &format!("* {m} tunnel choice b"));
            g.line(0, &format!("- {m} tunnel gather"));
        }
        g.tunnels = saved_tunnels;
        if g.cfg.fault_prone && g.rng.chance(1, 8) {
            g.line(0, "-> DONE");
        } else {
            g.line(0, "->->");
        }
        g.line(0, "");
    }

    // ---- threads
    let threads = g.threads.clone();
    for (i, t) in threads.iter().enumerate() {
        g.knot = 70 + i;
        g.temps.clear();
        g.line(0, &format!("=== {t} ==="));
        // 0-3 lines of its own before the choices: the host can stop (save, evaluate a function,
        // switch flow, pause) while the story is in the middle of a forked thread
        let nl = g.rng.below(4);
        // a thread may fork a later thread in turn (threads nested three deep while choices of
        // threads that have already finished are pending)
        if i + 1 < threads.len() && g.rng.chance(1, 3) {
            let later = threads[i + 1 + g.rng.below(threads.len() - i - 1)].clone();
            if g.rng.chance(1, 2) {
                let m0 = g.m();
                let tv = g.rng.range(1, 9);
                g.line(0, &format!("~ temp tt{m0} = {tv}"));
                g.line(0, &format!("<- {later}"));
                g.line(0, &format!("{m0} after nested fork t={{tt{m0}}}"));
            } else {
                g.line(0, &format!("<- {later}"));
            }
        }
        for _ in 0..nl {
            if g.rng.chance(1, 4) {
                g.assign(0);
            }
            g.text_line(0);
        }
        let m = g.m();
        let target = g.rng.pick(&knot_names).clone();
        // without `loops` the program has no back edges at all (sites run at most once)
        let target = if g.rng.chance(1, 2) || !g.cfg.loops { "END".to_string() } else { target };
        if g.rng.chance(1, 5) {
            // the thread offers nothing but a fallback choice: while the main flow still has lines to print
            // the story rests with an invisible choice pending and can_continue() true
            g.line(0, &format!("* -> {target}"));
            g.line(0, "-> DONE");
            g.line(0, "");
            continue;
        }
        // the choice runs on the thread that was forked for it: its body reads a temporary of that thread
        g.line(0, &format!("~ temp tv{m} = {}", 10 + i));
        g.line(0, &format!("+ {m} thread choice"));
        g.line(1, &format!("{m} thread body tv={{tv{m}}}"));
        g.line(1, &format!("-> {target}"));
        if g.rng.chance(1, 2) {
            let m2 = g.m();
            g.line(0, &format!("* {m2} thread once"));
            g.line(1, &format!("-> {target}"));
        }
        g.line(0, "-> DONE");
        g.line(0, "");
    }

    // ---- functions
    let funcs = g.funcs.clone();
    for (i, f) in funcs.iter().enumerate() {
        g.knot = 80 + i;
        g.temps.clear();
        let params: Vec<String> = (0..f.1).map(|k| format!("a{k}")).collect();
        g.line(0, &format!("=== function {}({}) ===", f.0, params.join(", ")));
        g.temps = params.clone();
        // functions may call earlier functions only (no recursion)
        let saved = std::mem::take(&mut g.funcs);
        g.funcs = saved[..i].to_vec();
        let saved_ext = std::mem::take(&mut g.externals);
        if f.2 {
            let n = 1 + g.rng.below(3);
            for _ in 0..n {
                let m = g.m();
                let bits = if g.rng.chance(1, 2) && !params.is_empty() { format!(" a={{{}}}", params[0]) } else { String::new() };
                g.line(0, &format!("{m} ftext{bits}"));
            }
        }
        if g.rng.chance(1, 3) && g.cfg.temps {
            g.line(0, "~ temp ft = 1");
            g.temps.push("ft".into());
        }
        if g.cfg.assign_heavy && g.rng.chance(1, 2) && !g.ints.is_empty() {
            // a function with a global side effect (called mid-line from text)
            let v = g.rng.pick(&g.ints).clone();
            g.line(0, &format!("~ {v} = {v} + 1"));
        }
        if g.cfg.fault_prone && g.rng.chance(1, 6) {
            // no return value: callers get void
        } else {
            let e = g.int_expr(1);
            g.line(0, &format!("~ return {e}"));
        }
        g.funcs = saved;
        g.externals = saved_ext;
        g.line(0, "");
    }

    // ---- ref functions
    let ref_funcs = g.ref_funcs.clone();
    for (i, f) in ref_funcs.iter().enumerate() {
        g.knot = 90 + i;
        g.line(0, &format!("=== function {f}(ref r) ==="));
        let m = g.m();
        g.line(0, &format!("{m} rline a {{r}}"));
        g.line(0, "~ r = r + 1");
        let m2 = g.m();
        g.line(0, &format!("{m2} rline b {{r}}"));
        g.line(0, "~ r = r + 2");
        g.line(0, "~ return r");
        g.line(0, "");
    }

    // ---- external fallbacks
    let mut externals = g.externals.clone();
    externals.extend(g.str_externals.iter().cloned());
    let nested = !g.cfg.external_heavy && g.rng.chance(1, 3);
    for e in externals.iter() {
        if g.cfg.ext_without_fallback && g.rng.chance(1, 2) {
            continue;
        }
        let params: Vec<String> = (0..e.1).map(|k| format!("p{k}")).collect();
        g.line(0, &format!("=== function {}({}) ===", e.0, params.join(", ")));
        if g.cfg.external_heavy {
            // the fallback is story code, so its call counter is rewound with look-ahead:
            // it yields the number of *committed* calls; the value is order-sensitive
            g.line(0, &format!("~ extcount_{} = extcount_{} + 1", e.0, e.0));
            let terms: Vec<String> = params.iter().enumerate().map(|(k, p)| if k == 0 { p.clone() } else { format!("{p} * {}", 10i32.pow(k as u32)) }).collect();
            let sum = if terms.is_empty() { "7".to_string() } else { format!("{} + 7", terms.join(" + ")) };
            g.line(0, &format!("~ return {sum}"));
        } else {
            // fallbacks that call the next external in turn (a cycle over all of them, bounded by the
            // first argument): call sites inside fallback functions, unbound externals calling each other
            let with_param: Vec<&(String, usize)> = externals.iter().filter(|x| x.1 >= 1).collect();
            if nested && e.1 >= 1 && with_param.len() >= 2 {
                let i = with_param.iter().position(|x| x.0 == e.0).unwrap_or(0);
                let next = with_param[(i + 1) % with_param.len()];
                let mut args = vec!["p0 - 1".to_string()];
                args.extend((1..next.1).map(|_| "1".to_string()));
                g.line(0, "{ p0 > 0 && p0 < 5:");
                g.line(1, &format!("~ return {}({}) + 1", next.0, args.join(", ")));
                g.line(0, "}");
            }
            let sum = if params.is_empty() { "7".to_string() } else { format!("{} + 7", params.join(" + ")) };
            g.line(0, &format!("~ return {sum}"));
        }
        g.line(0, "");
    }

    // ---- message-site support declarations
    let mut extra = String::new();
    for id in 1..=g.msg_id {
        extra.push_str(&format!("VAR zero_{id} = 0\n"));
        extra.push_str(&format!("VAR dv_{id} = {id}\n"));
    }
    for (id, a, b) in &g.wraps {
        extra.push_str(&format!("VAR wa_{id} = {a}\nVAR wb_{id} = {b}\n"));
    }
    let mut tail = String::new();
    for id in 1..=g.msg_id {
        tail.push_str(&format!("=== function fv_{id}() ===\n~ temp unused_{id} = 0\n\n"));
        tail.push_str(&format!("=== function fdw_{id}() ===\n{{ zero_{id} == 1:\n    ~ temp ud_{id} = 5\n}}\n~ return ud_{id}\n\n"));
    }
    format!("{extra}{}{tail}", g.out)
}
