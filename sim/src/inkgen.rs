//! Seeded generator of Ink programs (placeholder; filled in below).
use crate::model::Program;
use crate::rng::Rng;

#[derive(Clone, Default)]
pub struct GenCfg {
    pub knots: usize,
}

impl GenCfg {
    pub fn general() -> GenCfg {
        GenCfg { knots: 3 }
    }
    pub fn swarm(&mut self, _rng: &mut Rng) {}
}

pub fn generate(_rng: &mut Rng, _cfg: &GenCfg) -> Option<Program> {
    None
}
