//! The conformance corpus shipped with the repository: every `.ink` source
//! compiled with the repository's compiler (INCLUDE resolved through the file
//! handler seam) and every reference `.ink.json` loaded as is.
use std::path::{Path, PathBuf};

use bladeink_compiler::{Compiler, CompilerError};

use crate::model::Program;

pub struct Corpus {
    pub programs: Vec<Program>,
    pub rejected: usize,
}

fn collect(dir: &Path, out: &mut Vec<PathBuf>) {
    if let Ok(rd) = std::fs::read_dir(dir) {
        let mut entries: Vec<PathBuf> = rd.filter_map(|e| e.ok().map(|e| e.path())).collect();
        entries.sort();
        for p in entries {
            if p.is_dir() {
                collect(&p, out);
            } else {
                out.push(p);
            }
        }
    }
}

pub fn corpus_dir() -> PathBuf {
    std::env::var("VERIF_REPO")
        .map(PathBuf::from)
        .unwrap_or_else(|_| PathBuf::from("/repo"))
        .join("conformance-tests/inkfiles")
}

pub fn compile_source(src: &str, dir: Option<&Path>) -> Result<String, String> {
    let r = std::panic::catch_unwind(|| match dir {
        Some(d) => Compiler::new().compile_with_file_handler(src, |name| {
            std::fs::read_to_string(d.join(name)).map_err(|e| CompilerError::invalid_source(format!("include {name}: {e}")))
        }),
        None => Compiler::new().compile(src),
    });
    match r {
        Ok(Ok(j)) => Ok(j),
        Ok(Err(e)) => Err(e.to_string()),
        Err(_) => {
            let p = crate::host::take_panic();
            Err(format!("compiler panic: {:?}", p))
        }
    }
}

impl Corpus {
    pub fn load() -> Corpus {
        let root = corpus_dir();
        let mut files = Vec::new();
        collect(&root, &mut files);
        let mut programs = Vec::new();
        let mut rejected = 0;
        for f in files {
            let name = f.strip_prefix(&root).unwrap_or(&f).to_string_lossy().to_string();
            if name.ends_with(".ink.json") {
                if let Ok(mut json) = std::fs::read_to_string(&f) {
                    if json.starts_with('\u{feff}') {
                        json = json.trim_start_matches('\u{feff}').to_string();
                    }
                    match Program::from_json("corpus-json", &name, None, json) {
                        Some(p) => programs.push(p),
                        None => rejected += 1,
                    }
                }
            } else if name.ends_with(".ink") {
                if let Ok(src) = std::fs::read_to_string(&f) {
                    match compile_source(&src, f.parent()) {
                        Ok(json) => match Program::from_json("corpus-ink", &name, Some(src), json) {
                            Some(p) => programs.push(p),
                            None => rejected += 1,
                        },
                        Err(_) => rejected += 1,
                    }
                }
            }
        }
        Corpus { programs, rejected }
    }

    pub fn small(&self) -> Vec<&Program> {
        self.programs.iter().filter(|p| p.json.len() < 60_000).collect()
    }
}
