//! inksim - deterministic simulation with fault injection for blade-ink-rs.
mod corpus;
mod engine;
mod host;
mod inkgen;
mod model;
mod props;
mod rng;
mod script;
mod seams;

use std::path::Path;

use engine::Tier;

#[global_allocator]
static ALLOC: seams::Counting = seams::Counting;

fn usage() -> ! {
    eprintln!(
        "usage: inksim check <ID> [--tier quick|thorough] [--seed N] [--workers N]\n       inksim replay <ID> <file> [--quiet]\n       inksim worker ... | exec-case ... (internal)\n       inksim selftest [--seeds N]\n       inksim list"
    );
    std::process::exit(2)
}

fn arg_after(args: &[String], flag: &str) -> Option<String> {
    args.iter().position(|a| a == flag).and_then(|i| args.get(i + 1).cloned())
}

fn main() {
    host::install_panic_hook();
    let args: Vec<String> = std::env::args().collect();
    if args.len() < 2 {
        usage();
    }
    let env_seed = std::env::var("VERIF_SEED").ok().and_then(|s| s.parse::<u64>().ok()).unwrap_or(1);
    let env_tier = std::env::var("VERIF_TIER").ok().map(|s| Tier::parse(&s)).unwrap_or(Tier::Quick);
    let env_workers = std::env::var("VERIF_WORKERS").ok().and_then(|s| s.parse::<u64>().ok()).unwrap_or(16);
    match args[1].as_str() {
        "list" => {
            for d in props::all() {
                println!("{} {} quick={} thorough={}", d.id, d.level, d.runs_quick, d.runs_thorough);
            }
        }
        "check" => {
            let id = args.get(2).unwrap_or_else(|| usage());
            let def = props::find(id).unwrap_or_else(|| {
                eprintln!("unknown property {id}");
                std::process::exit(2)
            });
            let tier = arg_after(&args, "--tier").map(|s| Tier::parse(&s)).unwrap_or(env_tier);
            let seed = arg_after(&args, "--seed").and_then(|s| s.parse().ok()).unwrap_or(env_seed);
            let workers = arg_after(&args, "--workers").and_then(|s| s.parse().ok()).unwrap_or(env_workers);
            println!("VERIF_SEED={seed} property={} tier={} workers={workers} build={}", def.id, tier.name(), engine::build_name());
            let code = engine::check_main(def, tier, seed, workers);
            std::process::exit(code);
        }
        "worker" => {
            // worker <ID> <tier> <seed> <workers> <index> <out> [only_run]
            let def = props::find(&args[2]).unwrap();
            let tier = Tier::parse(&args[3]);
            let seed: u64 = args[4].parse().unwrap();
            let workers: u64 = args[5].parse().unwrap();
            let index: u64 = args[6].parse().unwrap();
            let only = args.get(8).and_then(|s| s.parse::<u64>().ok());
            engine::worker_main(def, tier, seed, workers, index, Path::new(&args[7]), only);
        }
        "exec-case" => {
            let def = props::find(&args[2]).unwrap();
            let mut case: model::Case = serde_json::from_slice(&std::fs::read(&args[3]).unwrap()).unwrap();
            case.program.reanalyze();
            let r = engine::exec_on_thread(def, &case);
            std::fs::write(&args[4], serde_json::to_vec(&r).unwrap()).unwrap();
        }
        "replay" => {
            let id = args.get(2).unwrap_or_else(|| usage());
            let def = props::find(id).unwrap_or_else(|| usage());
            let file = args.get(3).unwrap_or_else(|| usage());
            let quiet = args.iter().any(|a| a == "--quiet");
            let (rf, vs) = engine::replay_file(def, Path::new(file));
            let same = vs.iter().find(|v| v.signature() == rf.violation.signature());
            match same {
                Some(v) => {
                    if !quiet {
                        println!("replayed: class={} site={} detail={}", v.class, v.site, v.detail);
                        println!("  at: {}\n  expected: {}\n  actual:   {}", v.at, v.expected, v.actual);
                        let d = engine::violation_digest(v);
                        println!("  digest {} (recorded {})", d, rf.digest);
                    }
                    println!("VIOLATION property={} replay={}", def.id, file);
                    std::process::exit(1);
                }
                None => {
                    if !quiet {
                        println!("replay of {} no longer fails ({} other violation(s))", file, vs.len());
                        for v in &vs {
                            println!("  other: {} {}", v.signature(), v.detail);
                        }
                    }
                    std::process::exit(0);
                }
            }
        }
        _ => usage(),
    }
}
