//! inksim - deterministic simulation with fault injection for blade-ink-rs.
mod corpus;
mod engine;
mod host;
mod inkgen;
mod model;
mod props;
mod rng;
mod script;
mod seams;

use std::path::Path;

use engine::Tier;

#[global_allocator]
static ALLOC: seams::Counting = seams::Counting;

fn usage() -> ! {
    eprintln!(
        "usage: inksim check <ID> [--tier quick|thorough] [--seed N] [--workers N]\n       inksim replay <ID> <file> [--quiet]\n       inksim worker ... | exec-case ... (internal)\n       inksim selftest [--seeds N]\n       inksim list"
    );
    std::process::exit(2)
}

fn arg_after(args: &[String], flag: &str) -> Option<String> {
    args.iter().position(|a| a == flag).and_then(|i| args.get(i + 1).cloned())
}

fn main() {
    host::install_panic_hook();
    let args: Vec<String> = std::env::args().collect();
    if args.len() < 2 {
        usage();
    }
    let env_seed = std::env::var("VERIF_SEED").ok().and_then(|s| s.parse::<u64>().ok()).unwrap_or(1);
    let env_tier = std::env::var("VERIF_TIER").ok().map(|s| Tier::parse(&s)).unwrap_or(Tier::Quick);
    let env_workers = std::env::var("VERIF_WORKERS").ok().and_then(|s| s.parse::<u64>().ok()).unwrap_or(16);
    // every process that executes cases itself runs under an address-space limit; the parents of a batch
    // (check, selftest) only spawn such processes
    if !matches!(args[1].as_str(), "check" | "selftest" | "builds" | "list") {
        engine::limit_memory();
    }
    match args[1].as_str() {
        "list" => {
            for d in props::all() {
                println!("{} {} quick={} thorough={}", d.id, d.level, d.runs_quick, d.runs_thorough);
            }
        }
        "check" => {
            let id = args.get(2).unwrap_or_else(|| usage());
            let def = props::find(id).unwrap_or_else(|| {
                eprintln!("unknown property {id}");
                std::process::exit(2)
            });
            let tier = arg_after(&args, "--tier").map(|s| Tier::parse(&s)).unwrap_or(env_tier);
            let seed = arg_after(&args, "--seed").and_then(|s| s.parse().ok()).unwrap_or(env_seed);
            let workers = arg_after(&args, "--workers").and_then(|s| s.parse().ok()).unwrap_or(env_workers);
            println!("VERIF_SEED={seed} property={} tier={} workers={workers} build={}", def.id, tier.name(), engine::build_name());
            let code = engine::check_main(def, tier, seed, workers);
            std::process::exit(code);
        }
        "worker" => {
            // worker <ID> <tier> <seed> <workers> <index> <out> [only_run]
            let def = props::find(&args[2]).unwrap();
            let tier = Tier::parse(&args[3]);
            let seed: u64 = args[4].parse().unwrap();
            let workers: u64 = args[5].parse().unwrap();
            let index: u64 = args[6].parse().unwrap();
            let only = args.get(8).and_then(|s| s.parse::<u64>().ok());
            let start = args.get(9).and_then(|s| s.parse::<u64>().ok()).unwrap_or(0);
            engine::worker_main(def, tier, seed, workers, index, Path::new(&args[7]), only, start);
        }
        "exec-case" => {
            let def = props::find(&args[2]).unwrap();
            let mut case: model::Case = serde_json::from_slice(&std::fs::read(&args[3]).unwrap()).unwrap();
            case.program.reanalyze();
            let r = engine::exec_on_thread(def, &case);
            std::fs::write(&args[4], serde_json::to_vec(&r).unwrap()).unwrap();
            // a runaway case thread (watchdog expired) must not keep this process alive
            std::process::exit(0);
        }
        "play" => {
            // play <file.ink|file.json> [choice indices...]
            let f = &args[2];
            let txt = std::fs::read_to_string(f).unwrap();
            let json = if f.ends_with(".json") { txt.clone() } else {
                match corpus::compile_source(&txt, Path::new(f).parent()) { Ok(j) => j, Err(e) => { println!("compile error: {e}"); std::process::exit(1) } }
            };
            if args.iter().any(|a| a == "--json") { println!("{json}"); }
            let prog = model::Program::from_json("file", f, Some(txt), json).unwrap();
            let picks: Vec<u32> = args[3..].iter().filter_map(|a| a.parse().ok()).collect();
            host::set_quiet(false);
            let out = host::run_case_thread(1, 7, 1_000_000, 60, 64, move || {
                let mut rng = rng::Rng::new(1);
                let mut cfg = props::default_host(&prog, &mut rng);
                cfg.handler = true; cfg.fallbacks = true;
                if std::env::args().any(|a| a == "--unsafe") { for b in cfg.bindings.iter_mut() { b.1 = false; } }
                if std::env::args().any(|a| a == "--safe") { for b in cfg.bindings.iter_mut() { b.1 = true; } }
                if std::env::args().any(|a| a == "--unbound") { cfg.bindings.clear(); }
                cfg.ext_ret = 3;
                let mut h = match host::Host::new(&prog, &cfg) { Ok(h) => h, Err(r) => return vec![format!("construct failed: {}", r.brief())] };
                let mut k = 0;
                for _ in 0..200 {
                    let mut any = false;
                    while h.can_continue() { any = true; let r = h.apply(&model::Op::Continue); if !matches!(r, host::Res::Ok(_)) { break; } }
                    let ch = h.choices();
                    if ch.is_empty() { if !any { break; } continue; }
                    h.log.borrow_mut().push(host::Ev::Note(format!("choices {:?}", ch)));
                    let pick = picks.get(k).copied().unwrap_or(0); k += 1;
                    h.apply(&model::Op::Choose(pick));
                }
                let o = h.observe();
                let mut l = h.log_render();
                l.push(format!("vars {:?}", o.vars));
                l.push(format!("visits {:?}", o.visits));
                l.push(format!("errors {:?} warnings {:?}", o.errors, o.warnings));
                l
            }).unwrap();
            for l in out { println!("{l}"); }
        }
        "gentest" => {
            let n: u64 = args.get(2).and_then(|s| s.parse().ok()).unwrap_or(500);
            let show = args.iter().any(|a| a == "--show");
            let mut ok = 0;
            let mut rejects: std::collections::BTreeMap<String, (u64, String)> = Default::default();
            let mut bytes = 0usize;
            let (mut tot_lines, mut tot_choices) = (0usize, 0usize);
            let mut plays: std::collections::BTreeMap<String, u64> = Default::default();
            for i in 0..n {
                let mut rng = rng::Rng::new(rng::mix(env_seed, "gentest", i));
                let mut cfg = inkgen::GenCfg::general();
                cfg.shuffles = true;
                cfg.externals = true;
                cfg.random = true;
                if args.iter().any(|a| a == "--fault") {
                    cfg.fault_prone = true;
                    cfg.message_sites = true;
                }
                if args.iter().any(|a| a == "--hostile") {
                    cfg.hostile_text = true;
                }
                cfg.swarm(&mut rng);
                let (src, r) = inkgen::generate_verbose(&mut rng, &cfg);
                match r {
                    Ok(p) => {
                        ok += 1;
                        bytes += p.json.len();
                        let p2 = p.clone();
                        let seed = rng.next_u64();
                        let st = host::run_case_thread(seed, 7, 200_000, 60, 64, move || {
                            let mut rng = rng::Rng::new(seed);
                            let cfg = props::default_host(&p2, &mut rng);
                            let mut out: Vec<String> = vec![];
                            let mut h = match host::Host::new(&p2, &cfg) {
                                Ok(h) => h,
                                Err(r) => return (vec![format!("construct: {}", r.brief())], 0usize, 0usize),
                            };
                            let ops = script::gen_script(&mut rng, &p2, &script::ScriptCfg { beats: 8, ..Default::default() });
                            let (mut lines, mut chosen) = (0, 0);
                            for op in &ops {
                                let r = h.apply(op);
                                match (&r, op) {
                                    (host::Res::Ok(_), model::Op::Continue) => lines += 1,
                                    (host::Res::Ok(_), model::Op::Choose(_)) => chosen += 1,
                                    (host::Res::Err(_, m), _) => out.push(format!("err: {}", m.rsplit("issue was: ").next().unwrap_or(m).chars().take(150).collect::<String>())),
                                    (host::Res::Panic(s, m), _) => out.push(format!("PANIC {s}: {m}")),
                                    (host::Res::Fuel, _) => out.push("FUEL".into()),
                                    _ => {}
                                }
                            }
                            if show { out.extend(h.log_render()); }
                            (out, lines, chosen)
                        }).unwrap();
                        tot_lines += st.1; tot_choices += st.2;
                        for o in &st.0 {
                            let key: String = o.chars().filter(|c| !c.is_ascii_digit()).take(90).collect();
                            *plays.entry(key).or_insert(0u64) += 1;
                        }
                        if show && i < 3 { for o in &st.0 { println!("   {o}"); } }
                        if show && i < 3 {
                            println!("----- program {i}\n{src}");
                        }
                    }
                    Err(e) => {
                        let key: String = e.chars().filter(|c| !c.is_ascii_digit()).take(70).collect();
                        let ent = rejects.entry(key).or_insert((0, String::new()));
                        ent.0 += 1;
                        if ent.1.is_empty() {
                            ent.1 = format!("{e}\n{src}");
                        }
                    }
                }
            }
            println!("accepted {ok}/{n} avg json {} bytes; played: {} lines, {} choices", bytes / ok.max(1), tot_lines, tot_choices);
            for (k, c) in &plays {
                println!("   play {c} x {k}");
            }
            for (k, (c, ex)) in rejects {
                println!("== {c} x {k}");
                if args.iter().any(|a| a == "--rejects") {
                    println!("{ex}");
                }
            }
        }
        "selftest" => {
            let runs = arg_after(&args, "--runs").and_then(|s| s.parse().ok()).unwrap_or(300);
            let ids: Vec<String> = args[2..].iter().filter(|a| a.starts_with('C')).cloned().collect();
            std::process::exit(engine::selftest_main(&ids, runs, env_seed));
        }
        "c03-warm" => {
            let mut case: model::Case = serde_json::from_slice(&std::fs::read(&args[2]).unwrap()).unwrap();
            case.program.reanalyze();
            println!("{}", props::c03::warm_child(&case));
        }
        "builds" => {
            if let Some(def) = args.get(2).and_then(|id| props::find(id)) {
                for b in def.sub_builds {
                    println!("{}", b.0);
                }
            }
        }
        "digest-case" => {
            // digest-case <ID> <replay file>: digest of the main run's event log in this build
            let def = props::find(&args[2]).unwrap();
            let rf: model::ReplayFile = serde_json::from_slice(&std::fs::read(&args[3]).unwrap()).unwrap();
            let mut case = rf.case.clone();
            case.program.reanalyze();
            let r = engine::exec_on_thread(def, &case);
            println!("{:016x}", r.digest);
        }
        "trace" => {
            // debugging aid: run the ops of a replay file on a plain host and print every result and observation
            let file = args.get(2).unwrap_or_else(|| usage());
            let rf: model::ReplayFile = serde_json::from_slice(&std::fs::read(file).expect("read replay")).expect("parse replay");
            let mut case = rf.case.clone();
            case.program.reanalyze();
            host::install_panic_hook();
            let out = host::run_case_thread(case.hash_seed, case.story_seed, case.fuel, 60, 64, move || {
                let mut lines = Vec::new();
                let mut h = match host::Host::new(&case.program, &case.host) {
                    Ok(h) => h,
                    Err(r) => return vec![format!("construct: {}", r.brief())],
                };
                for (i, op) in case.ops.iter().enumerate() {
                    let r = h.apply(op);
                    lines.push(format!("op {i} {}: {}", op.short(), r.brief()));
                    if r.is_panic() {
                        break;
                    }
                    let o = h.observe();
                    lines.push(format!("    can_continue={} path={} text={:?} choices={:?} errors={:?} warnings={:?} eval_stack={} flows={}", o.can_continue, o.path, o.text, o.choices, o.errors, o.warnings, o.eval_stack, o.flows));
                }
                for l in h.log_render() {
                    lines.push(format!("  log {l}"));
                }
                lines
            });
            match out {
                Ok(lines) => lines.iter().for_each(|l| println!("{l}")),
                Err(_) => println!("case thread died or timed out"),
            }
        }
        "replay" => {
            let id = args.get(2).unwrap_or_else(|| usage());
            let def = props::find(id).unwrap_or_else(|| usage());
            let file = args.get(3).unwrap_or_else(|| usage());
            let quiet = args.iter().any(|a| a == "--quiet");
            {
                let rf: model::ReplayFile = serde_json::from_slice(&std::fs::read(file).expect("read replay")).expect("parse replay");
                if rf.class == "profile-divergence" {
                    let mut case = rf.case.clone();
                    case.program.reanalyze();
                    let ours = format!("{:016x}", engine::exec_on_thread(def, &case).digest);
                    let other = engine::build_bin(&rf.site);
                    let out = std::process::Command::new(&other).args(["digest-case", id, file]).output().expect("spawn other build");
                    let theirs = String::from_utf8_lossy(&out.stdout).trim().to_string();
                    println!("digest in {}: {ours}; in {}: {theirs}", engine::build_name(), rf.site);
                    if ours != theirs {
                        println!("VIOLATION property={} replay={}", def.id, file);
                        std::process::exit(1);
                    }
                    std::process::exit(0);
                }
                if rf.build != engine::build_name() {
                    // the violation was found in another build: replay it there
                    let other = engine::build_bin(&rf.build);
                    let st = std::process::Command::new(&other).args(&args[1..]).status().expect("spawn other build");
                    std::process::exit(st.code().unwrap_or(2));
                }
            }
            let (rf, vs) = engine::replay_file(def, Path::new(file));
            let same = vs.iter().find(|v| v.signature() == rf.violation.signature());
            match same {
                Some(v) => {
                    if !quiet {
                        println!("replayed: class={} site={} detail={}", v.class, v.site, v.detail);
                        println!("  at: {}\n  expected: {}\n  actual:   {}", v.at, v.expected, v.actual);
                        let d = engine::violation_digest(v);
                        println!("  digest {} (recorded {})", d, rf.digest);
                    }
                    println!("VIOLATION property={} replay={}", def.id, file);
                    std::process::exit(1);
                }
                None => {
                    if !quiet {
                        println!("replay of {} no longer fails ({} other violation(s))", file, vs.len());
                        for v in &vs {
                            println!("  other: {} {}", v.signature(), v.detail);
                        }
                    }
                    std::process::exit(0);
                }
            }
        }
        _ => usage(),
    }
}
