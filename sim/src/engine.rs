//! Generic batch runner: worker processes, stats merging, known findings,
//! shrinking, replay files, evidence.
use std::collections::{BTreeMap, BTreeSet};
use std::io::Write;
use std::path::{Path, PathBuf};
use std::process::{Command, Stdio};
use std::time::Instant;

use serde::{Deserialize, Serialize};
use serde_json::{Value as J, json};

use crate::corpus::Corpus;
use crate::host::run_case_thread;
use crate::model::*;
use crate::rng::{Rng, fnv, mix};

#[derive(Clone, Copy, PartialEq, Debug)]
pub enum Tier {
    Quick,
    Thorough,
}

impl Tier {
    pub fn name(&self) -> &'static str {
        match self {
            Tier::Quick => "quick",
            Tier::Thorough => "thorough",
        }
    }
    pub fn parse(s: &str) -> Tier {
        if s == "thorough" { Tier::Thorough } else { Tier::Quick }
    }
}

#[derive(Serialize, Deserialize, Clone, Debug, Default)]
pub struct Stats {
    pub counters: BTreeMap<String, u64>,
    pub sets: BTreeMap<String, BTreeSet<u64>>,
    pub samples: Vec<J>,
}

impl Stats {
    pub fn inc(&mut self, k: &str) {
        *self.counters.entry(k.to_string()).or_insert(0) += 1;
    }
    pub fn add(&mut self, k: &str, n: u64) {
        *self.counters.entry(k.to_string()).or_insert(0) += n;
    }
    pub fn get(&self, k: &str) -> u64 {
        self.counters.get(k).copied().unwrap_or(0)
    }
    pub fn mark(&mut self, set: &str, h: u64) {
        self.sets.entry(set.to_string()).or_default().insert(h);
    }
    pub fn set_len(&self, set: &str) -> usize {
        self.sets.get(set).map(|s| s.len()).unwrap_or(0)
    }
    pub fn merge(&mut self, o: Stats) {
        for (k, v) in o.counters {
            *self.counters.entry(k).or_insert(0) += v;
        }
        for (k, v) in o.sets {
            self.sets.entry(k).or_default().extend(v);
        }
        for s in o.samples {
            if self.samples.len() < 6 {
                self.samples.push(s);
            }
        }
    }
    pub fn probes(&mut self) {
        for (name, n) in bladeink::verif::take_probes() {
            self.add(&format!("probe.{name}"), n);
        }
        self.add("sim_steps", bladeink::verif::steps());
        self.add("sim_clock_reads", crate::seams::clock_total_reads());
        // virtual time this case thread's clock has covered (it starts at 1 s)
        self.add("sim_time_us", crate::seams::clock_now_ns().saturating_sub(1_000_000_000) / 1000);
    }
}

/// Result of executing one case.
#[derive(Serialize, Deserialize, Clone, Debug, Default)]
pub struct CaseResult {
    pub violations: Vec<Violation>,
    pub discard: Option<String>,
    pub nontrivial: bool,
    pub fingerprint: u64,
    pub stats: Stats,
    /// digest of the complete event log of the main run (0 = not provided)
    #[serde(default)]
    pub digest: u64,
    /// the case thread is still running: the process must be replaced
    #[serde(default)]
    pub timed_out: bool,
}

impl CaseResult {
    pub fn fail(&mut self, v: Violation) {
        if self.violations.len() < 12 && !self.violations.iter().any(|x| x.signature() == v.signature() && x.detail == v.detail) {
            self.violations.push(v);
        }
    }
}

pub struct PropertyDef {
    pub id: &'static str,
    pub level: &'static str,
    pub rule: &'static str,
    pub assumptions: &'static [&'static str],
    pub runs_quick: u64,
    pub runs_thorough: u64,
    pub exhaustive_note: &'static str,
    /// builds the case of run `run`; `None` = nothing to run for this index
    pub generate: fn(&Corpus, Tier, u64, &mut Rng) -> Option<Case>,
    /// executes a case on the current (case) thread
    pub execute: fn(&Case) -> CaseResult,
    /// probes/counters that must be non-zero after a batch (else harness error)
    pub must_hit: &'static [&'static str],
    /// wall-clock bound for one case (a step normally takes microseconds)
    pub timeout_s: u64,
    /// `Some(class)`: a case that does not finish in time is a violation of this class
    pub hang_class: Option<&'static str>,
    /// other builds of the simulator in which (a prefix of) the same runs is repeated:
    /// (build name, runs quick, runs thorough, compare per-run digests with this build)
    pub sub_builds: &'static [(&'static str, u64, u64, bool)],
    /// stack of the case thread (a host's main thread typically has 8 MiB)
    pub stack_mb: usize,
}

pub fn exec_on_thread(def: &'static PropertyDef, case: &Case) -> CaseResult {
    let mut c = case.clone();
    if c.program.info.ink_version == 0 {
        c.program.reanalyze();
    }
    let exec = def.execute;
    let r = run_case_thread(case.hash_seed, case.story_seed, case.fuel, def.timeout_s, def.stack_mb, move || {
        let mut r = exec(&c);
        r.stats.probes();
        r
    });
    match r {
        Ok(r) => r,
        Err(true) => {
            let mut r = CaseResult::default();
            r.timed_out = true;
            match def.hang_class {
                Some(class) => r.violations.push(Violation::new(def.id, class, "watchdog", &format!("case did not finish within {} s", def.timeout_s))),
                None => r.discard = Some("timeout".into()),
            }
            r
        }
        Err(false) => {
            let mut r = CaseResult::default();
            r.violations.push(Violation::new(def.id, "harness-thread-died", "", "case thread panicked outside catch_unwind"));
            r
        }
    }
}

// ------------------------------------------------------------ known findings

#[derive(Serialize, Deserialize, Clone, Debug)]
pub struct Known {
    pub property: String,
    pub id: String,
    #[serde(default)]
    pub status: String, // "open" | "fixed"
    #[serde(default)]
    pub class: String,
    #[serde(default)]
    pub site_contains: String,
    #[serde(default)]
    pub detail_contains: String,
    #[serde(default)]
    pub what: String,
    #[serde(default)]
    pub commit: String,
}

pub fn load_known() -> Vec<Known> {
    let p = verif_dir().join("known_findings.jsonl");
    let mut v = Vec::new();
    if let Ok(s) = std::fs::read_to_string(p) {
        for l in s.lines() {
            let l = l.trim();
            if l.is_empty() || l.starts_with('#') {
                continue;
            }
            match serde_json::from_str::<Known>(l) {
                Ok(k) => v.push(k),
                Err(e) => {
                    eprintln!("harness error: bad known_findings line: {e}: {l}");
                    std::process::exit(2);
                }
            }
        }
    }
    v
}

pub fn match_known<'a>(known: &'a [Known], v: &Violation) -> Option<&'a Known> {
    known.iter().find(|k| {
        k.status != "fixed"
            && k.property == v.property
            && k.class == v.class
            && (k.site_contains.is_empty() || v.site.contains(&k.site_contains))
            && (k.detail_contains.is_empty() || v.detail.contains(&k.detail_contains))
    })
}

pub fn verif_dir() -> PathBuf {
    std::env::var("VERIF_DIR").map(PathBuf::from).unwrap_or_else(|_| PathBuf::from("/verif"))
}

/// Where evidence, replay files and scratch files go (`VERIF_OUT` redirects them, e.g. for
/// sensitivity runs against a deliberately broken tree, so that committed evidence is untouched).
pub fn out_dir() -> PathBuf {
    std::env::var("VERIF_OUT").map(PathBuf::from).unwrap_or_else(|_| verif_dir())
}

// --------------------------------------------------------------- the worker

/// Recorded cases (`regress/<ID>/*.json`, replay-file format): minimised schedules of the defects
/// repaired so far and of deliberately broken trees. Every batch executes them after the generated
/// runs, so that the return of a repaired defect does not depend on the sampler finding it again.
pub const PINNED_BASE: u64 = 1 << 40;

pub fn load_pinned(def: &PropertyDef) -> Vec<Case> {
    // measuring what the sampler alone finds on a deliberately broken tree
    if std::env::var("VERIF_NO_PINNED").is_ok() {
        return Vec::new();
    }
    let dir = verif_dir().join("regress").join(def.id);
    let mut names: Vec<PathBuf> = match std::fs::read_dir(&dir) {
        Ok(rd) => rd.flatten().map(|e| e.path()).filter(|p| p.extension().map(|x| x == "json").unwrap_or(false)).collect(),
        Err(_) => return Vec::new(),
    };
    names.sort();
    let mut out = Vec::new();
    for (j, p) in names.iter().enumerate() {
        let rf: ReplayFile = match std::fs::read(p).ok().and_then(|b| serde_json::from_slice(&b).ok()) {
            Some(rf) => rf,
            None => {
                eprintln!("harness error: recorded case {} does not parse", p.display());
                std::process::exit(2);
            }
        };
        let mut case = rf.case;
        if case.prop != def.id || !case.program.reanalyze() {
            eprintln!("harness error: recorded case {} is not a {} case with a parsable program", p.display(), def.id);
            std::process::exit(2);
        }
        case.run = PINNED_BASE + j as u64;
        out.push(case);
    }
    out
}

/// The case of a run index: generated from the seed, or a recorded one.
pub fn case_for_run(def: &'static PropertyDef, corpus: &Corpus, pinned: &[Case], tier: Tier, seed: u64, run: u64) -> Option<Case> {
    if run >= PINNED_BASE {
        return pinned.get((run - PINNED_BASE) as usize).cloned();
    }
    let mut rng = Rng::new(mix(seed, def.id, run));
    (def.generate)(corpus, tier, run, &mut rng)
}

#[derive(Serialize, Deserialize, Default)]
pub struct WorkerOut {
    pub stats: Stats,
    pub failures: Vec<(Case, Violation)>,
    pub done: u64,
    #[serde(default)]
    pub digests: Vec<(u64, u64)>,
    /// digest of the complete result of every run (only with VERIF_RDIGEST=1: determinism self-test)
    #[serde(default)]
    pub rdigests: Vec<(u64, u64)>,
    /// the worker stopped early (a case hung): restart from this run index
    pub resume: Option<u64>,
}

pub fn worker_main(def: &'static PropertyDef, tier: Tier, seed: u64, workers: u64, index: u64, out: &Path, only_run: Option<u64>, start: u64) {
    let corpus = Corpus::load();
    let total = runs_for(def, tier);
    let mut wo = WorkerOut::default();
    let cur = out.with_extension("cur");
    let deadline = std::env::var("VERIF_WORKER_DEADLINE_S").ok().and_then(|s| s.parse::<u64>().ok());
    let t0 = Instant::now();
    let rdigest = std::env::var("VERIF_RDIGEST").is_ok();
    let pinned = load_pinned(def);
    // this worker's share: every `workers`-th generated run, then every `workers`-th pinned case
    let mut mine: Vec<u64> = (0..total).filter(|r| r % workers == index).collect();
    mine.extend((0..pinned.len() as u64).filter(|j| j % workers == index).map(|j| PINNED_BASE + j));
    mine.retain(|r| *r >= start);
    if let Some(o) = only_run {
        mine = vec![o];
    }
    let mut seen_sigs: BTreeMap<String, u32> = BTreeMap::new();
    for run in mine {
        if let Some(d) = deadline
            && t0.elapsed().as_secs() > d
        {
            wo.stats.inc("stopped_by_deadline");
            break;
        }
        let case = case_for_run(def, &corpus, &pinned, tier, seed, run);
        if let Some(case) = case {
            let _ = std::fs::write(&cur, format!("{run}"));
            let r = exec_on_thread(def, &case);
            let timed_out = r.timed_out;
            if r.digest != 0 {
                wo.digests.push((run, r.digest));
            }
            if rdigest {
                let mut c = r.clone();
                c.stats.samples.clear();
                wo.rdigests.push((run, fnv(&serde_json::to_string(&c).unwrap_or_default())));
            }
            if run >= PINNED_BASE {
                // a recorded case (regress/<ID>/): checked like any other, counted apart
                wo.stats.inc("pinned_cases");
                if r.discard.is_some() {
                    wo.stats.inc("pinned_cases_discarded");
                }
            } else {
                wo.stats.inc("evaluations");
                wo.stats.inc(&format!("programs.{}", case.program.kind));
            }
            if run >= PINNED_BASE {
                // not part of the sampled population
            } else if let Some(d) = &r.discard {
                wo.stats.inc(&format!("discarded.{d}"));
            } else if r.nontrivial {
                wo.stats.mark("nontrivial", r.fingerprint);
            }
            if run < PINNED_BASE && wo.stats.samples.len() < 3 && r.nontrivial && r.discard.is_none() {
                wo.stats.samples.push(sample_of(&case));
            }
            wo.stats.merge(r.stats);
            for v in r.violations {
                let n = seen_sigs.entry(v.signature()).or_insert(0);
                *n += 1;
                wo.stats.inc(&format!("violation_sig.{}", v.signature()));
                if *n <= 2 {
                    wo.failures.push((case.clone(), v));
                }
            }
            if timed_out {
                // the runaway thread cannot be stopped: hand over to a fresh process
                wo.stats.inc("watchdog_restarts");
                wo.resume = Some(run + 1);
                wo.done += 1;
                std::fs::write(out, serde_json::to_vec(&wo).unwrap()).unwrap();
                let _ = std::fs::remove_file(&cur);
                std::process::exit(0);
            }
        } else {
            wo.stats.inc("skipped_no_case");
        }
        wo.done += 1;
    }
    let _ = std::fs::remove_file(&cur);
    std::fs::write(out, serde_json::to_vec(&wo).unwrap()).unwrap();
}

/// Number of runs of a batch: the tier's count, or `VERIF_RUNS` (used for sub-build batches).
pub fn runs_for(def: &PropertyDef, tier: Tier) -> u64 {
    if let Some(n) = std::env::var("VERIF_RUNS").ok().and_then(|s| s.parse::<u64>().ok()) {
        return n;
    }
    match tier {
        Tier::Quick => def.runs_quick,
        Tier::Thorough => def.runs_thorough,
    }
}

/// Where the builds of the simulator and of the tool live (`VERIF_TARGET_DIR` moves them, e.g. for a
/// development build against a frozen copy of the repository).
pub fn target_dir() -> PathBuf {
    std::env::var("VERIF_TARGET_DIR").map(PathBuf::from).unwrap_or_else(|_| verif_dir().join("target"))
}

pub fn build_bin(build: &str) -> PathBuf {
    let t = target_dir();
    match build {
        "dev" => t.join("debug/inksim"),
        "release" => t.join("release/inksim"),
        "release+stream-json-parser" => t.join("stream/release/inksim"),
        other => t.join(other).join("inksim"),
    }
}

pub fn sample_of(case: &Case) -> J {
    let src = case.program.source.clone().unwrap_or_else(|| format!("<{} {}>", case.program.kind, case.program.name));
    json!({
        "run": case.run,
        "program": {"kind": case.program.kind, "name": case.program.name,
                    "source": src.chars().take(1500).collect::<String>()},
        "host": case.host,
        "ops": case.ops.iter().map(|o| o.short()).collect::<Vec<_>>(),
        "params": case.params,
        "hash_seed": case.hash_seed, "story_seed": case.story_seed,
    })
}

// --------------------------------------------------------------- the parent

fn self_exe() -> PathBuf {
    std::env::current_exe().expect("current_exe")
}

pub fn build_name() -> String {
    let prof = if cfg!(debug_assertions) { "dev" } else { "release" };
    let feat = if cfg!(feature = "stream-json-parser") { "+stream-json-parser" } else { "" };
    format!("{prof}{feat}")
}

pub struct BatchResult {
    pub stats: Stats,
    pub failures: Vec<(Case, Violation)>,
    pub wall_s: f64,
    pub digests: BTreeMap<u64, u64>,
    pub rdigests: BTreeMap<u64, u64>,
}

pub fn run_batch(def: &'static PropertyDef, tier: Tier, seed: u64, workers: u64) -> BatchResult {
    let t0 = Instant::now();
    let work = out_dir().join("work").join(format!("{}-{}", def.id, std::process::id()));
    std::fs::create_dir_all(&work).unwrap();
    let spawn = |k: u64, start: u64| {
        let out = work.join(format!("w{k}.json"));
        let _ = std::fs::remove_file(&out);
        let child = Command::new(self_exe())
            .args([
                "worker",
                def.id,
                tier.name(),
                &seed.to_string(),
                &workers.to_string(),
                &k.to_string(),
                out.to_str().unwrap(),
                "-",
                &start.to_string(),
            ])
            .stdin(Stdio::null())
            .spawn()
            .expect("spawn worker");
        (k, out, child)
    };
    // all workers are watched at once (a worker that respawns after a hung case must not wait for the
    // others); their outputs are merged in (worker, generation) order so that the result does not
    // depend on which finished first
    let mut children: Vec<(u64, u32, PathBuf, std::process::Child)> = Vec::new();
    for k in 0..workers {
        let (k, out, child) = spawn(k, 0);
        children.push((k, 0, out, child));
    }
    let mut outputs: BTreeMap<(u64, u32), WorkerOut> = BTreeMap::new();
    let mut stats = Stats::default();
    let mut failures = Vec::new();
    let mut digests: BTreeMap<u64, u64> = BTreeMap::new();
    let mut rdigests: BTreeMap<u64, u64> = BTreeMap::new();
    let mut deaths = 0u64;
    let mut timeouts = 0u64;
    let mut cut_short = false;
    while !children.is_empty() {
        let mut progressed = false;
        let mut i = 0;
        while i < children.len() {
            let st = match children[i].3.try_wait() {
                Ok(Some(st)) => st,
                Ok(None) => {
                    i += 1;
                    continue;
                }
                Err(e) => {
                    eprintln!("harness error: waiting for a worker failed: {e}");
                    std::process::exit(2);
                }
            };
            progressed = true;
            let (k, generation, out, _child) = children.swap_remove(i);
            if st.success() && out.exists() {
                let wo: WorkerOut = serde_json::from_slice(&std::fs::read(&out).unwrap()).expect("worker output");
                if let Some(next) = wo.resume {
                    timeouts += 1;
                    // where a hung case is a violation, a handful of them is enough: a tree that hangs in
                    // every other case would otherwise cost timeout_s per case
                    if def.hang_class.is_some() && timeouts > 8 {
                        cut_short = true;
                    } else {
                        let (k, out, child) = spawn(k, next);
                        children.push((k, generation + 1, out, child));
                    }
                }
                outputs.insert((k, generation), wo);
            } else {
                // worker died: attribute to the case it was executing
                let cur = out.with_extension("cur");
                let run = std::fs::read_to_string(&cur).ok().and_then(|s| s.trim().parse::<u64>().ok());
                deaths += 1;
                match run {
                    Some(run) => {
                        let corpus = Corpus::load();
                        if let Some(case) = case_for_run(def, &corpus, &load_pinned(def), tier, seed, run) {
                            let v = Violation::new(def.id, "abort", "process", &format!("worker died ({st}) while executing a case"));
                            failures.push((case, v));
                        }
                        // the runs this worker had not reached yet are still owed
                        let (k, out, child) = spawn(k, run + 1);
                        children.push((k, generation + 1, out, child));
                    }
                    None => {
                        eprintln!("harness error: worker {k} died ({st}) outside a case");
                        std::process::exit(2);
                    }
                }
            }
        }
        if !progressed {
            std::thread::sleep(std::time::Duration::from_millis(3));
        }
    }
    for (_, wo) in outputs {
        stats.merge(wo.stats);
        failures.extend(wo.failures);
        digests.extend(wo.digests);
        rdigests.extend(wo.rdigests);
    }
    for _ in 0..deaths {
        stats.inc("worker_deaths");
    }
    if cut_short {
        stats.inc("batch_cut_short_after_hung_cases");
    }
    let _ = std::fs::remove_dir_all(&work);
    failures.sort_by_key(|f| f.0.run);
    BatchResult { stats, failures, wall_s: t0.elapsed().as_secs_f64(), digests, rdigests }
}

/// Address-space limit of a process that executes cases (workers, exec-case children): a runaway story on a
/// broken tree can allocate without bound inside one step, where neither fuel nor the watchdog stops it in
/// time; the allocation then fails and the process aborts (reported as `abort`), instead of the machine
/// running out of memory. 6 GiB is far above anything a case on a healthy tree needs (tens of MiB).
pub fn limit_memory() {
    let lim = libc::rlimit { rlim_cur: 6 << 30, rlim_max: 6 << 30 };
    // SAFETY: plain libc call with a valid pointer
    unsafe {
        libc::setrlimit(libc::RLIMIT_AS, &lim);
    }
}

/// Execute a case in a fresh child process. Returns the violations it reports
/// (an abort becomes a violation of class `abort`).
pub fn exec_in_child(def: &'static PropertyDef, case: &Case, tag: &str) -> Vec<Violation> {
    let work = out_dir().join("work").join(format!("x-{}-{}", std::process::id(), tag));
    std::fs::create_dir_all(&work).unwrap();
    let cf = work.join("case.json");
    let of = work.join("out.json");
    std::fs::write(&cf, serde_json::to_vec(case).unwrap()).unwrap();
    let st = Command::new(self_exe())
        .args(["exec-case", def.id, cf.to_str().unwrap(), of.to_str().unwrap()])
        .stdin(Stdio::null())
        .status()
        .expect("spawn exec-case");
    let res = if st.success() && of.exists() {
        let r: CaseResult = serde_json::from_slice(&std::fs::read(&of).unwrap()).unwrap();
        r.violations
    } else {
        vec![Violation::new(def.id, "abort", "process", &format!("child died ({st})"))]
    };
    let _ = std::fs::remove_dir_all(&work);
    res
}

fn same_sig(vs: &[Violation], sig: &str) -> Option<Violation> {
    vs.iter().find(|v| v.signature() == sig).cloned()
}

/// Structural shrinking: drop ops, drop host configuration, drop program
/// source lines, while a violation with the same signature persists.
pub fn shrink(def: &'static PropertyDef, case: &Case, v: &Violation, budget: usize) -> (Case, Violation, J) {
    let sig = v.signature();
    let in_child = true;
    let mut tried = 0usize;
    let run = |c: &Case, tried: &mut usize| -> Option<Violation> {
        *tried += 1;
        if in_child {
            same_sig(&exec_in_child(def, c, "shrink"), &sig)
        } else {
            same_sig(&exec_on_thread(def, c).violations, &sig)
        }
    };
    let mut best = case.clone();
    let mut bestv = v.clone();
    let from_ops = best.ops.len();
    let from_lines = best.program.source.as_ref().map(|s| s.lines().count()).unwrap_or(0);
    let t0 = Instant::now();
    let time_ok = |t0: &Instant| t0.elapsed().as_secs() < 120;
    // ops
    let mut chunk = (best.ops.len() / 2).max(1);
    while chunk >= 1 && tried < budget && time_ok(&t0) {
        let mut i = 0;
        let mut progress = false;
        while i < best.ops.len() && tried < budget && time_ok(&t0) {
            let mut c = best.clone();
            let end = (i + chunk).min(c.ops.len());
            c.ops.drain(i..end);
            if let Some(nv) = run(&c, &mut tried) {
                best = c;
                bestv = nv;
                progress = true;
            } else {
                i += chunk;
            }
        }
        if chunk == 1 && !progress {
            break;
        }
        if chunk > 1 {
            chunk /= 2;
        } else if !progress {
            break;
        }
    }
    // property-specific fault lists kept in params
    for key in ["damages", "faults"] {
        let n0 = best.params.get(key).and_then(|d| d.as_array()).map(|a| a.len()).unwrap_or(0);
        if n0 == 0 {
            continue;
        }
        let mut chunk = (n0 / 2).max(1);
        loop {
            let mut i = 0;
            let mut progress = false;
            loop {
                let len = best.params[key].as_array().map(|a| a.len()).unwrap_or(0);
                if i >= len || tried >= budget || !time_ok(&t0) {
                    break;
                }
                let mut c = best.clone();
                if let Some(a) = c.params[key].as_array_mut() {
                    let end = (i + chunk).min(a.len());
                    a.drain(i..end);
                }
                if let Some(nv) = run(&c, &mut tried) {
                    best = c;
                    bestv = nv;
                    progress = true;
                } else {
                    i += chunk;
                }
            }
            if chunk == 1 {
                if !progress {
                    break;
                }
            } else {
                chunk /= 2;
            }
            if tried >= budget || !time_ok(&t0) {
                break;
            }
        }
    }
    // host configuration
    for field in 0..3 {
        let n = match field {
            0 => best.host.observers.len(),
            1 => best.host.bindings.len(),
            _ => 1,
        };
        let mut i = 0;
        while i < n && tried < budget && time_ok(&t0) {
            let mut c = best.clone();
            match field {
                0 => {
                    if i < c.host.observers.len() {
                        c.host.observers.remove(i);
                    } else {
                        break;
                    }
                }
                1 => {
                    if i < c.host.bindings.len() {
                        c.host.bindings.remove(i);
                    } else {
                        break;
                    }
                }
                _ => {
                    if c.host.handler {
                        c.host.handler = false;
                    } else {
                        break;
                    }
                }
            }
            if let Some(nv) = run(&c, &mut tried) {
                best = c;
                bestv = nv;
            } else {
                i += 1;
            }
        }
    }
    // program source lines - not where the oracle rests on how the program was built (C12, C13: numbered
    // sites whose surrounding lines say what must happen; C10: flows that share nothing; C16: functions that
    // are total and pure): a program with lines taken out can "reproduce" the signature while it no longer
    // meets that assumption, i.e. while it shows nothing about the property
    if best.program.source.is_some() && best.program.kind != "corpus-json" && !matches!(def.id, "C10" | "C12" | "C13" | "C16") {
        let mut chunk = 8usize;
        loop {
            let lines: Vec<String> = best.program.source.as_ref().unwrap().lines().map(|s| s.to_string()).collect();
            let mut i = 0;
            let mut cur = lines.clone();
            let mut progress = false;
            while i < cur.len() && tried < budget && time_ok(&t0) {
                let end = (i + chunk).min(cur.len());
                let mut cand = cur.clone();
                cand.drain(i..end);
                let src = cand.join("\n") + "\n";
                let compiled = std::panic::catch_unwind(|| bladeink_compiler::Compiler::new().compile(&src));
                let ok = match compiled {
                    Ok(Ok(json)) => {
                        let mut c = best.clone();
                        c.program.source = Some(src);
                        c.program.json = json;
                        if c.program.reanalyze() {
                            if let Some(nv) = run(&c, &mut tried) {
                                best = c;
                                bestv = nv;
                                true
                            } else {
                                false
                            }
                        } else {
                            false
                        }
                    }
                    _ => {
                        let _ = crate::host::take_panic();
                        false
                    }
                };
                if ok {
                    cur = cand;
                    progress = true;
                } else {
                    i += chunk;
                }
            }
            if chunk == 1 {
                if !progress {
                    break;
                }
            } else {
                chunk /= 2;
            }
            if tried >= budget || !time_ok(&t0) {
                break;
            }
        }
    }
    let to_lines = best.program.source.as_ref().map(|s| s.lines().count()).unwrap_or(0);
    let info = json!({"from_ops": from_ops, "to_ops": best.ops.len(), "from_source_lines": from_lines,
                      "to_source_lines": to_lines, "candidates_tried": tried});
    (best, bestv, info)
}

pub fn violation_digest(v: &Violation) -> String {
    format!("{:016x}", fnv(&format!("{}|{}|{}|{}", v.property, v.class, v.site, v.detail)))
}

pub fn write_replay(case: &Case, v: &Violation, seed: u64, minimised: J) -> PathBuf {
    let dir = out_dir().join("replays");
    std::fs::create_dir_all(&dir).unwrap();
    let digest = violation_digest(v);
    let suffix = if build_name() == "release" { String::new() } else { format!("-{}", build_name().replace('+', "_")) };
    let path = dir.join(format!("{}-{}-{}{}.json", v.property, seed, &digest[..10], suffix));
    let rf = ReplayFile {
        schema: 1,
        property: v.property.clone(),
        class: v.class.clone(),
        site: v.site.clone(),
        detail: v.detail.clone(),
        digest,
        verif_seed: seed,
        build: build_name(),
        violation: v.clone(),
        minimised,
        case: case.clone(),
    };
    std::fs::write(&path, serde_json::to_string_pretty(&rf).unwrap()).unwrap();
    path
}

/// Replay a file: exit status semantics are handled by the caller.
pub fn replay_file(def: &'static PropertyDef, path: &Path) -> (ReplayFile, Vec<Violation>) {
    let rf: ReplayFile = serde_json::from_slice(&std::fs::read(path).expect("read replay")).expect("parse replay");
    let mut case = rf.case.clone();
    if !case.program.reanalyze() {
        eprintln!("harness error: replay program JSON does not parse");
        std::process::exit(2);
    }
    let vs = if rf.class == "abort" { exec_in_child(def, &case, "replay") } else { exec_on_thread(def, &case).violations };
    (rf, vs)
}

pub struct Report {
    pub new_violations: Vec<(Violation, PathBuf)>,
    pub known_hit: BTreeMap<String, (Known, u64)>,
}

pub fn triage(def: &'static PropertyDef, seed: u64, failures: Vec<(Case, Violation)>, stats: &Stats) -> Report {
    let known = load_known();
    let mut known_hit: BTreeMap<String, (Known, u64)> = BTreeMap::new();
    let mut fresh: Vec<(Case, Violation)> = Vec::new();
    let mut seen: BTreeSet<String> = BTreeSet::new();
    for (c, v) in failures {
        if let Some(k) = match_known(&known, &v) {
            let n = stats.get(&format!("violation_sig.{}", v.signature()));
            let e = known_hit.entry(k.id.clone()).or_insert((k.clone(), 0));
            e.1 = e.1.max(n.max(1));
            continue;
        }
        if seen.insert(v.signature()) {
            fresh.push((c, v));
        }
    }
    let mut new_violations = Vec::new();
    let triage_t0 = Instant::now();
    for (c, v) in fresh.into_iter().take(40) {
        if v.class == "profile-divergence" {
            // established by comparing two builds; replay re-runs both
            let path = write_replay(&c, &v, seed, json!({"note": "not minimised: needs both builds"}));
            new_violations.push((v, path));
            continue;
        }
        // confirm, shrink, write, verify in a fresh process
        // the parent never executes a case itself: a case that runs away (time, memory) on a broken tree would
        // stay with it as a thread that cannot be stopped
        let confirm = exec_in_child(def, &c, "confirm");
        let v = match same_sig(&confirm, &v.signature()) {
            Some(v) => v,
            None => {
                eprintln!(
                    "harness error: violation {} of run {} did not reproduce on re-execution (nondeterminism in the harness)",
                    v.signature(),
                    c.run
                );
                std::process::exit(2);
            }
        };
        // minimisation is bounded per violation (120 s) and per batch (10 min); later ones are reported as found
        let (mc, mv, info) = if triage_t0.elapsed().as_secs() < 600 { shrink(def, &c, &v, 600) } else { (c.clone(), v.clone(), json!({"note": "not minimised: triage time budget used up"})) };
        // a shrunk case may have drifted onto a known finding's detail; keep the signature only
        let path = write_replay(&mc, &mv, seed, info);
        let st = Command::new(self_exe())
            .args(["replay", def.id, path.to_str().unwrap(), "--quiet"])
            .stdin(Stdio::null())
            .stdout(Stdio::null())
            .status()
            .expect("spawn replay");
        if st.code() != Some(1) {
            eprintln!("harness error: replay file {} did not reproduce in a fresh process (status {st})", path.display());
            std::process::exit(2);
        }
        new_violations.push((mv, path));
    }
    Report { new_violations, known_hit }
}

pub fn write_evidence(def: &'static PropertyDef, tier: Tier, seed: u64, br: &BatchResult, rep: &Report) {
    let s = &br.stats;
    let evals = s.get("evaluations");
    let mut counters = serde_json::Map::new();
    let mut faults = serde_json::Map::new();
    let mut probes = serde_json::Map::new();
    let mut discarded = serde_json::Map::new();
    let mut programs = serde_json::Map::new();
    for (k, v) in &s.counters {
        if let Some(r) = k.strip_prefix("fault.") {
            faults.insert(r.to_string(), json!(v));
        } else if let Some(r) = k.strip_prefix("probe.") {
            probes.insert(r.to_string(), json!(v));
        } else if let Some(r) = k.strip_prefix("discarded.") {
            discarded.insert(r.to_string(), json!(v));
        } else if let Some(r) = k.strip_prefix("programs.") {
            programs.insert(r.to_string(), json!(v));
        } else if k.starts_with("violation_sig.") {
            continue;
        } else {
            counters.insert(k.clone(), json!(v));
        }
    }
    let mut distinct = serde_json::Map::new();
    for (k, v) in &s.sets {
        distinct.insert(k.clone(), json!(v.len()));
    }
    let known: Vec<J> = rep
        .known_hit
        .values()
        .map(|(k, n)| json!({"id": k.id, "what": k.what, "cases": n}))
        .collect();
    let subs: Vec<J> = SUB_REPORTS.with(|r| r.borrow().clone());
    let ev = json!({
        "property_id": def.id,
        "tier": tier.name(),
        "seed": seed,
        "level": def.level,
        "coverage": {
            "evaluations": evals,
            "distinct_nontrivial": s.set_len("nontrivial"),
            "rule": def.rule,
            "samples": s.samples,
            "exhaustive": false,
            "exhaustive_within_case": def.exhaustive_note,
            "runs_per_hour": if br.wall_s > 0.0 { (evals as f64 / br.wall_s * 3600.0) as u64 } else { 0 },
            "seeds": {"verif_seed": seed, "first_run": 0, "last_run": match tier { Tier::Quick => def.runs_quick, Tier::Thorough => def.runs_thorough }.saturating_sub(1),
                      "derivation": "per-run seed = mix(VERIF_SEED, property id, run index) -> xoshiro256**"},
            "sim_steps": s.get("sim_steps"),
            "sim_clock_reads": s.get("sim_clock_reads"),
            "sim_time_ms": s.get("sim_time_us") / 1000,
            "faults": faults,
            "probes": probes,
            "distinct": distinct,
            "program_kinds": programs,
            "discarded": discarded,
            "counters": counters,
            "known_findings_hit": known,
            "build": build_name(),
            "other_builds": subs,
            "components": {
                "real": ["bladeink runtime (/repo/runtime, feature verif-hooks)", "bladeink-compiler (/repo/compiler)", "serde_json"],
                "stub": ["host callbacks (observers, external functions, error handler)", "entropy (getrandom seam)",
                         "clock (clock_gettime seam)", "allocator accounting", "the disk holding saves and story files"]
            }
        },
        "assumptions": def.assumptions,
        "wall_s": br.wall_s,
        "violations": rep.new_violations.len(),
    });
    let dir = out_dir().join("evidence");
    std::fs::create_dir_all(&dir).unwrap();
    let tmp = dir.join(format!(".{}.json.tmp", def.id));
    let mut f = std::fs::File::create(&tmp).unwrap();
    f.write_all(serde_json::to_string_pretty(&ev).unwrap().as_bytes()).unwrap();
    drop(f);
    std::fs::rename(tmp, dir.join(format!("{}.json", def.id))).unwrap();
}

thread_local! {
    static SUB_REPORTS: std::cell::RefCell<Vec<J>> = const { std::cell::RefCell::new(Vec::new()) };
}

/// Repeat (a prefix of) the batch in another build of the simulator. Returns its exit code.
fn run_sub_build(def: &'static PropertyDef, tier: Tier, seed: u64, workers: u64, build: &str, runs: u64, compare: bool, br: &BatchResult, extra_failures: &mut Vec<(Case, Violation)>) -> i32 {
    let bin = build_bin(build);
    if !bin.exists() {
        eprintln!("harness error: {} build of the simulator is missing ({}); run ./check (it builds it)", build, bin.display());
        return 2;
    }
    let t0 = Instant::now();
    let out = Command::new(&bin)
        .args(["check", def.id, "--tier", tier.name(), "--seed", &seed.to_string(), "--workers", &workers.to_string(), "--sub"])
        .env("VERIF_RUNS", runs.to_string())
        .stdin(Stdio::null())
        .output()
        .expect("spawn sub build");
    let text = String::from_utf8_lossy(&out.stdout).to_string();
    for l in text.lines() {
        if l.starts_with("VIOLATION") || l.starts_with("KNOWN-FINDING") || l.starts_with("  violation") || l.starts_with("  signature") {
            println!("{l}");
        }
    }
    let code = out.status.code().unwrap_or(2);
    if code == 2 {
        eprintln!("{}", String::from_utf8_lossy(&out.stderr));
    }
    let side = out_dir().join("work").join(format!("sub-{}-{}.json", def.id, build.replace('+', "_")));
    let mut report = json!({"build": build, "runs": runs, "exit": code, "wall_s": t0.elapsed().as_secs_f64()});
    if let Ok(b) = std::fs::read(&side) {
        if let Ok(j) = serde_json::from_slice::<J>(&b) {
            report["evaluations"] = j["evaluations"].clone();
            report["distinct_nontrivial"] = j["distinct_nontrivial"].clone();
            report["violations"] = j["violations"].clone();
            if compare {
                let mut compared = 0u64;
                let mut differ = 0u64;
                if let Some(m) = j["digests"].as_object() {
                    for (k, v) in m {
                        let run: u64 = k.parse().unwrap_or(u64::MAX);
                        if let (Some(theirs), Some(ours)) = (v.as_u64(), br.digests.get(&run)) {
                            compared += 1;
                            if theirs != *ours {
                                differ += 1;
                                if extra_failures.len() < 4 {
                                    let corpus = Corpus::load();
                                    if let Some(case) = case_for_run(def, &corpus, &load_pinned(def), tier, seed, run) {
                                        let v = Violation::new(def.id, "profile-divergence", build, "event log digest differs between builds")
                                            .with(format!("run {run}"), format!("{:016x} ({})", ours, build_name()), format!("{:016x} ({build})", theirs));
                                        extra_failures.push((case, v));
                                    }
                                }
                            }
                        }
                    }
                }
                report["digests_compared"] = json!(compared);
                report["digests_differing"] = json!(differ);
            }
        }
        let _ = std::fs::remove_file(&side);
    }
    SUB_REPORTS.with(|r| r.borrow_mut().push(report));
    code
}

/// Entry point of `inksim check <ID>`; returns the process exit code.
pub fn check_main(def: &'static PropertyDef, tier: Tier, seed: u64, workers: u64) -> i32 {
    let is_sub = std::env::args().any(|a| a == "--sub");
    if is_sub {
        return sub_main(def, tier, seed, workers);
    }
    // replay files of earlier runs of this property are superseded
    if let Ok(rd) = std::fs::read_dir(out_dir().join("replays")) {
        for e in rd.flatten() {
            let n = e.file_name().to_string_lossy().to_string();
            if n.starts_with(&format!("{}-", def.id)) && n.ends_with(".json") {
                let _ = std::fs::remove_file(e.path());
            }
        }
    }
    let br = run_batch(def, tier, seed, workers);
    let mut failures = br.failures.clone();
    let mut sub_code = 0;
    for (build, rq, rt, compare) in def.sub_builds {
        let runs = if std::env::var("VERIF_RUNS").is_ok() { runs_for(def, tier) } else if tier == Tier::Quick { *rq } else { *rt };
        let c = run_sub_build(def, tier, seed, workers, build, runs, *compare, &br, &mut failures);
        sub_code = sub_code.max(c);
    }
    let rep = triage(def, seed, failures, &br.stats);
    if sub_code == 2 {
        write_evidence(def, tier, seed, &br, &rep);
        return 2;
    }
    // must-hit probes: a probe stuck at zero means the workload does not reach what it claims.
    // Only meaningful on a run without violations (a broken property often silences a probe,
    // and the violation is the more useful report).
    if rep.new_violations.is_empty() {
        for m in def.must_hit {
            if br.stats.get(m) == 0 && br.stats.set_len(m) == 0 {
                eprintln!("harness error: must-hit counter `{m}` is zero for {} ({})", def.id, tier.name());
                write_evidence(def, tier, seed, &br, &rep);
                return 2;
            }
        }
    }
    write_evidence(def, tier, seed, &br, &rep);
    for (k, n) in rep.known_hit.values() {
        println!("KNOWN-FINDING: property={} {} [{}; {} case(s) this run]", def.id, k.what, k.id, n);
    }
    println!(
        "{} {}: {} evaluations, {} distinct non-trivial, {} discarded, {:.1}s, {} new violation(s)",
        def.id,
        tier.name(),
        br.stats.get("evaluations"),
        br.stats.set_len("nontrivial"),
        br.stats.counters.iter().filter(|(k, _)| k.starts_with("discarded.")).map(|(_, v)| *v).sum::<u64>(),
        br.wall_s,
        rep.new_violations.len()
    );
    for (k, v) in &br.stats.counters {
        if let Some(sig) = k.strip_prefix("violation_sig.") {
            println!("  signature {sig}: {v} case(s)");
        }
    }
    if rep.new_violations.is_empty() {
        sub_code
    } else {
        for (v, p) in &rep.new_violations {
            println!("  violation class={} site={} detail={} at={}", v.class, v.site, v.detail, v.at);
            println!("VIOLATION property={} replay={}", def.id, p.display());
        }
        1
    }
}

impl Clone for BatchResult {
    fn clone(&self) -> Self {
        BatchResult { stats: self.stats.clone(), failures: self.failures.clone(), wall_s: self.wall_s, digests: self.digests.clone(), rdigests: self.rdigests.clone() }
    }
}

/// A batch run on behalf of another build's check: own triage and replay files, results in a side file.
fn sub_main(def: &'static PropertyDef, tier: Tier, seed: u64, workers: u64) -> i32 {
    let br = run_batch(def, tier, seed, workers);
    let rep = triage(def, seed, br.failures.clone(), &br.stats);
    for (k, n) in rep.known_hit.values() {
        println!("KNOWN-FINDING: property={} {} [{}; {} case(s) this run; build {}]", def.id, k.what, k.id, n, build_name());
    }
    for (k, v) in &br.stats.counters {
        if let Some(sig) = k.strip_prefix("violation_sig.") {
            println!("  signature {sig}: {v} case(s) [build {}]", build_name());
        }
    }
    let digests: serde_json::Map<String, J> = br.digests.iter().map(|(k, v)| (k.to_string(), json!(v))).collect();
    let side = out_dir().join("work").join(format!("sub-{}-{}.json", def.id, build_name().replace('+', "_")));
    let _ = std::fs::create_dir_all(side.parent().unwrap());
    let j = json!({"evaluations": br.stats.get("evaluations"), "distinct_nontrivial": br.stats.set_len("nontrivial"),
                   "violations": rep.new_violations.len(), "digests": digests});
    std::fs::write(&side, serde_json::to_vec(&j).unwrap()).unwrap();
    for (v, p) in &rep.new_violations {
        println!("  violation class={} site={} detail={} at={} [build {}]", v.class, v.site, v.detail, v.at, build_name());
        println!("VIOLATION property={} replay={}", def.id, p.display());
    }
    if rep.new_violations.is_empty() { 0 } else { 1 }
}

/// Determinism self-test: the complete result of every run must be identical across
/// repeated batches in fresh worker processes and across worker counts.
pub fn selftest_main(ids: &[String], runs: u64, seed: u64) -> i32 {
    // SAFETY: single-threaded at this point; the variables are read by the worker children
    unsafe {
        std::env::set_var("VERIF_RUNS", runs.to_string());
        std::env::set_var("VERIF_RDIGEST", "1");
        std::env::set_var("VERIF_OUT", std::env::temp_dir().join(format!("inksim-selftest-{}", std::process::id())));
    }
    let mut bad = 0;
    let mut total = 0u64;
    for def in crate::props::all() {
        if !ids.is_empty() && !ids.iter().any(|i| i == def.id) {
            continue;
        }
        let a = run_batch(def, Tier::Quick, seed, 16);
        let b = run_batch(def, Tier::Quick, seed, 5);
        let c = run_batch(def, Tier::Quick, seed, 16);
        let mut diffs = Vec::new();
        for (run, d) in &a.rdigests {
            total += 1;
            if b.rdigests.get(run) != Some(d) || c.rdigests.get(run) != Some(d) {
                diffs.push(*run);
            }
        }
        if a.rdigests.len() != b.rdigests.len() || a.rdigests.len() != c.rdigests.len() {
            diffs.push(u64::MAX);
        }
        println!(
            "{}: {} runs x 3 batches (16, 5, 16 workers): {}",
            def.id,
            a.rdigests.len(),
            if diffs.is_empty() { "identical".to_string() } else { format!("DIFFERENT at runs {:?}", &diffs[..diffs.len().min(8)]) }
        );
        if !diffs.is_empty() {
            bad += 1;
        }
    }
    let _ = std::fs::remove_dir_all(out_dir());
    println!("selftest: {total} runs compared, {bad} properties with differences");
    if bad == 0 { 0 } else { 1 }
}
