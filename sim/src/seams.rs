//! Link-time seams owned by the simulator.
//!
//! * `getrandom`  - std's `RandomState` keys and the `getrandom` crate behind
//!   `rand::rng()` both resolve to the symbol defined here. When the current
//!   thread has installed an entropy seed every byte comes from a per-thread
//!   SplitMix64 stream; otherwise the real syscall is made.
//! * `clock_gettime` - `std::time::Instant` (and therefore `web_time::Instant`
//!   inside `continue_internal`) reads the virtual clock of the current thread
//!   when one is armed, otherwise the real syscall is made.
//! * global allocator - counts live bytes and allocations per thread.
//!
//! Every piece of state is a const-initialised thread-local without a
//! destructor, so it is usable from inside the allocator and from inside
//! thread-local initialisers of std.
use std::alloc::{GlobalAlloc, Layout, System};
use std::cell::Cell;

// ---------------------------------------------------------------- entropy

thread_local! {
    static ENTROPY: Cell<Option<u64>> = const { Cell::new(None) };
    static ENTROPY_CALLS: Cell<u64> = const { Cell::new(0) };
}

/// Install the entropy stream of the current thread. Must be the first thing
/// a fresh case thread does (before any `HashMap` or `rand::rng()` use).
pub fn install_entropy(seed: u64) {
    ENTROPY.with(|e| e.set(Some(seed)));
}

pub fn entropy_calls() -> u64 {
    ENTROPY_CALLS.with(|c| c.get())
}

fn splitmix(state: &mut u64) -> u64 {
    *state = state.wrapping_add(0x9E37_79B9_7F4A_7C15);
    let mut z = *state;
    z = (z ^ (z >> 30)).wrapping_mul(0xBF58_476D_1CE4_E5B9);
    z = (z ^ (z >> 27)).wrapping_mul(0x94D0_49BB_1331_11EB);
    z ^ (z >> 31)
}

/// # Safety
/// libc contract: `buf` points to `len` writable bytes.
#[unsafe(no_mangle)]
pub unsafe extern "C" fn getrandom(buf: *mut u8, len: usize, flags: u32) -> isize {
    let seeded = ENTROPY.try_with(|e| e.get()).ok().flatten();
    match seeded {
        Some(mut st) => {
            let mut i = 0usize;
            while i < len {
                let v = splitmix(&mut st).to_le_bytes();
                let mut j = 0;
                while j < 8 && i < len {
                    unsafe { *buf.add(i) = v[j] };
                    i += 1;
                    j += 1;
                }
            }
            let _ = ENTROPY.try_with(|e| e.set(Some(st)));
            let _ = ENTROPY_CALLS.try_with(|c| c.set(c.get() + 1));
            len as isize
        }
        None => unsafe { libc::syscall(libc::SYS_getrandom, buf, len, flags) as isize },
    }
}

// ------------------------------------------------------------------ clock

#[derive(Clone, Copy)]
struct VClock {
    armed: bool,
    now_ns: u64,
    /// reads since the last `clock_begin_call`
    reads: u64,
    /// at this read index (>= 1) the clock jumps by `jump_ns`
    pause_at: u64,
    jump_ns: u64,
    /// every read advances by this much (may be 0)
    tick_ns: u64,
    total_reads: u64,
}

thread_local! {
    static VCLOCK: Cell<VClock> = const { Cell::new(VClock {
        armed: false, now_ns: 1_000_000_000, reads: 0, pause_at: 0, jump_ns: 0, tick_ns: 0, total_reads: 0,
    }) };
}

/// Arm the virtual clock of this thread.
pub fn clock_arm() {
    VCLOCK.with(|c| {
        let mut v = c.get();
        v.armed = true;
        c.set(v);
    });
}

pub fn clock_disarm() {
    VCLOCK.with(|c| {
        let mut v = c.get();
        v.armed = false;
        c.set(v);
    });
}

/// Start a new host call: read 0 will be `Instant::now()`, reads 1.. the
/// per-step `elapsed()` checks. `pause_at == 0` means never jump.
pub fn clock_begin_call(pause_at: u64, jump_ns: u64, tick_ns: u64) {
    VCLOCK.with(|c| {
        let mut v = c.get();
        v.reads = 0;
        v.pause_at = pause_at;
        v.jump_ns = jump_ns;
        v.tick_ns = tick_ns;
        c.set(v);
    });
}

/// Number of clock reads made during the current host call.
pub fn clock_reads() -> u64 {
    VCLOCK.with(|c| c.get().reads)
}

pub fn clock_total_reads() -> u64 {
    VCLOCK.with(|c| c.get().total_reads)
}

pub fn clock_now_ns() -> u64 {
    VCLOCK.with(|c| c.get().now_ns)
}

/// # Safety
/// libc contract: `ts` points to a writable `timespec`.
#[unsafe(no_mangle)]
pub unsafe extern "C" fn clock_gettime(clk: libc::clockid_t, ts: *mut libc::timespec) -> libc::c_int {
    let v = VCLOCK.try_with(|c| c.get()).ok();
    match v {
        Some(mut v) if v.armed && !ts.is_null() => {
            v.now_ns += v.tick_ns;
            if v.pause_at != 0 && v.reads == v.pause_at {
                v.now_ns += v.jump_ns;
            }
            v.reads += 1;
            v.total_reads += 1;
            unsafe {
                (*ts).tv_sec = (v.now_ns / 1_000_000_000) as libc::time_t;
                (*ts).tv_nsec = (v.now_ns % 1_000_000_000) as libc::c_long;
            }
            let _ = VCLOCK.try_with(|c| c.set(v));
            0
        }
        _ => unsafe { libc::syscall(libc::SYS_clock_gettime, clk, ts) as libc::c_int },
    }
}

// -------------------------------------------------------------- allocator

thread_local! {
    static LIVE: Cell<isize> = const { Cell::new(0) };
    static ALLOCS: Cell<u64> = const { Cell::new(0) };
}

pub struct Counting;

unsafe impl GlobalAlloc for Counting {
    unsafe fn alloc(&self, l: Layout) -> *mut u8 {
        let p = unsafe { System.alloc(l) };
        if !p.is_null() {
            let _ = LIVE.try_with(|c| c.set(c.get() + l.size() as isize));
            let _ = ALLOCS.try_with(|c| c.set(c.get() + 1));
        }
        p
    }
    unsafe fn dealloc(&self, p: *mut u8, l: Layout) {
        unsafe { System.dealloc(p, l) };
        let _ = LIVE.try_with(|c| c.set(c.get() - l.size() as isize));
    }
    unsafe fn alloc_zeroed(&self, l: Layout) -> *mut u8 {
        let p = unsafe { System.alloc_zeroed(l) };
        if !p.is_null() {
            let _ = LIVE.try_with(|c| c.set(c.get() + l.size() as isize));
            let _ = ALLOCS.try_with(|c| c.set(c.get() + 1));
        }
        p
    }
    unsafe fn realloc(&self, p: *mut u8, l: Layout, new_size: usize) -> *mut u8 {
        let q = unsafe { System.realloc(p, l, new_size) };
        if !q.is_null() {
            let _ = LIVE.try_with(|c| c.set(c.get() + new_size as isize - l.size() as isize));
            let _ = ALLOCS.try_with(|c| c.set(c.get() + 1));
        }
        q
    }
}

/// Live bytes allocated (and not yet freed) by the current thread.
pub fn live_bytes() -> isize {
    LIVE.with(|c| c.get())
}

pub fn alloc_count() -> u64 {
    ALLOCS.with(|c| c.get())
}
