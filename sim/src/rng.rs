//! The simulator's only source of decisions: xoshiro256** seeded through
//! SplitMix64 from (VERIF_SEED, property, run index). Implemented here so the
//! stream never depends on a crate version.

#[derive(Clone)]
pub struct Rng {
    s: [u64; 4],
    pub draws: u64,
}

pub fn splitmix(state: &mut u64) -> u64 {
    *state = state.wrapping_add(0x9E37_79B9_7F4A_7C15);
    let mut z = *state;
    z = (z ^ (z >> 30)).wrapping_mul(0xBF58_476D_1CE4_E5B9);
    z = (z ^ (z >> 27)).wrapping_mul(0x94D0_49BB_1331_11EB);
    z ^ (z >> 31)
}

pub fn fnv(s: &str) -> u64 {
    let mut h: u64 = 0xcbf2_9ce4_8422_2325;
    for b in s.as_bytes() {
        h ^= *b as u64;
        h = h.wrapping_mul(0x0000_0100_0000_01B3);
    }
    h
}

pub fn fnv_bytes(h0: u64, s: &[u8]) -> u64 {
    let mut h = h0;
    for b in s {
        h ^= *b as u64;
        h = h.wrapping_mul(0x0000_0100_0000_01B3);
    }
    h
}

/// Per-run seed: a pure function of the three inputs.
pub fn mix(verif_seed: u64, prop: &str, run: u64) -> u64 {
    let mut st = verif_seed ^ fnv(prop).rotate_left(17) ^ run.wrapping_mul(0xD6E8_FEB8_6659_FD93);
    let a = splitmix(&mut st);
    let b = splitmix(&mut st);
    a ^ b.rotate_left(32)
}

impl Rng {
    pub fn new(seed: u64) -> Rng {
        let mut st = seed;
        let s = [
            splitmix(&mut st),
            splitmix(&mut st),
            splitmix(&mut st),
            splitmix(&mut st),
        ];
        Rng { s, draws: 0 }
    }

    pub fn next_u64(&mut self) -> u64 {
        self.draws += 1;
        let result = self.s[1].wrapping_mul(5).rotate_left(7).wrapping_mul(9);
        let t = self.s[1] << 17;
        self.s[2] ^= self.s[0];
        self.s[3] ^= self.s[1];
        self.s[1] ^= self.s[2];
        self.s[0] ^= self.s[3];
        self.s[2] ^= t;
        self.s[3] = self.s[3].rotate_left(45);
        result
    }

    /// Uniform in 0..n (n > 0).
    pub fn below(&mut self, n: usize) -> usize {
        if n <= 1 {
            // still consume a draw so the stream position does not depend on n
            self.next_u64();
            return 0;
        }
        (self.next_u64() % n as u64) as usize
    }

    pub fn range(&mut self, lo: i64, hi_incl: i64) -> i64 {
        lo + self.below((hi_incl - lo + 1) as usize) as i64
    }

    /// True with probability num/den.
    pub fn chance(&mut self, num: usize, den: usize) -> bool {
        self.below(den) < num
    }

    pub fn pick<'a, T>(&mut self, v: &'a [T]) -> &'a T {
        &v[self.below(v.len())]
    }

    pub fn fork(&mut self) -> Rng {
        Rng::new(self.next_u64())
    }
}
