//! The simulated host: owns a real `Story`, the peers the story calls back
//! into (observers, external functions, error handler), the "disk" (save
//! slots) and the event log. Every library call goes through `guard`, which
//! catches panics and notices fuel exhaustion.
use std::cell::{Cell, RefCell};
use std::collections::BTreeMap;
use std::panic::{AssertUnwindSafe, catch_unwind};
use std::rc::Rc;

use bladeink::story::Story;
use bladeink::story::errors::{ErrorHandler, ErrorType};
use bladeink::story::external_functions::ExternalFunction;
use bladeink::story::variable_observer::VariableObserver;
use bladeink::story_error::StoryError;
use bladeink::value_type::ValueType;
use serde_json::Value as J;

use crate::model::*;
use crate::seams;

// ------------------------------------------------------------ panic capture

thread_local! {
    static LAST_PANIC: RefCell<Option<(String, String)>> = const { RefCell::new(None) };
    static QUIET: Cell<bool> = const { Cell::new(true) };
}

fn fn_name_at(file: &str, line: u32) -> String {
    // nearest preceding `fn name` in the source file: survives unrelated edits
    if let Ok(src) = std::fs::read_to_string(file) {
        let lines: Vec<&str> = src.lines().collect();
        let mut i = (line as usize).min(lines.len());
        while i > 0 {
            i -= 1;
            let l = lines[i].trim_start();
            let l = l.strip_prefix("pub(crate) ").or_else(|| l.strip_prefix("pub ")).unwrap_or(l);
            if let Some(rest) = l.strip_prefix("fn ") {
                let name: String = rest.chars().take_while(|c| c.is_alphanumeric() || *c == '_').collect();
                return name;
            }
        }
    }
    "?".to_string()
}

fn site_from_backtrace() -> Option<String> {
    let bt = std::backtrace::Backtrace::force_capture().to_string();
    let lines: Vec<&str> = bt.lines().collect();
    for (i, l) in lines.iter().enumerate() {
        let t = l.trim();
        if let Some(at) = t.strip_prefix("at ")
            && at.starts_with("/repo/")
        {
            let mut parts = at.rsplitn(3, ':');
            let _col = parts.next();
            let line = parts.next().and_then(|x| x.parse::<u32>().ok()).unwrap_or(0);
            let file = parts.next().unwrap_or(at);
            let _ = i;
            return Some(format!("{}::{}", file.trim_start_matches("/repo/"), fn_name_at(file, line)));
        }
    }
    None
}

pub fn install_panic_hook() {
    std::panic::set_hook(Box::new(|info| {
        let msg = if let Some(s) = info.payload().downcast_ref::<&str>() {
            s.to_string()
        } else if let Some(s) = info.payload().downcast_ref::<String>() {
            s.clone()
        } else {
            "<non-string panic>".to_string()
        };
        let site = match info.location() {
            Some(loc) if loc.file().starts_with("/repo/") => {
                format!("{}::{}", loc.file().trim_start_matches("/repo/"), fn_name_at(loc.file(), loc.line()))
            }
            Some(loc) => site_from_backtrace().unwrap_or_else(|| format!("{}:{}", loc.file(), loc.line())),
            None => "?".to_string(),
        };
        if !QUIET.with(|q| q.get()) {
            eprintln!("[panic] {site}: {msg}");
        }
        LAST_PANIC.with(|p| *p.borrow_mut() = Some((site, msg)));
    }));
}

pub fn set_quiet(q: bool) {
    QUIET.with(|c| c.set(q));
}

pub fn take_panic() -> Option<(String, String)> {
    LAST_PANIC.with(|p| p.borrow_mut().take())
}

/// Normalise a panic message so that it can serve in a signature (numbers and
/// quoted payloads are kept; addresses are not present in these messages).
pub fn norm_msg(m: &str) -> String {
    let mut s: String = m.chars().take(160).collect();
    s = s.replace('\n', " ");
    s
}

// -------------------------------------------------------------------- events

#[derive(Clone, Debug, PartialEq)]
pub enum Ev {
    Op { idx: usize, op: String, res: String },
    Line { text: String, tags: Vec<String> },
    Observer { obs: u8, var: String, val: String },
    External { name: String, args: Vec<String>, lines: usize, ret: String },
    Handler { warning: bool, msg: String },
    PausedCall { call: String, refused: bool },
    Note(String),
}

impl Ev {
    pub fn render(&self) -> String {
        match self {
            Ev::Op { idx, op, res } => format!("op[{idx}] {op} -> {res}"),
            Ev::Line { text, tags } => format!("line {:?} tags={:?}", text, tags),
            Ev::Observer { obs, var, val } => format!("observer#{obs} {var}={val}"),
            Ev::External { name, args, lines, ret } => {
                format!("external {name}({}) lines_delivered={lines} -> {ret}", args.join(","))
            }
            Ev::Handler { warning, msg } => {
                format!("handler {} {:?}", if *warning { "WARNING" } else { "ERROR" }, msg)
            }
            Ev::PausedCall { call, refused } => format!("paused-call {call} refused={refused}"),
            Ev::Note(s) => format!("note {s}"),
        }
    }
}

pub type Log = Rc<RefCell<Vec<Ev>>>;

struct ObsPeer {
    id: u8,
    log: Log,
}
impl VariableObserver for ObsPeer {
    fn changed(&mut self, variable_name: &str, value: &ValueType) {
        self.log.borrow_mut().push(Ev::Observer {
            obs: self.id,
            var: variable_name.to_string(),
            val: render_value(value),
        });
    }
}

struct ExtPeer {
    log: Log,
    lines: Rc<Cell<usize>>,
    ret: u8,
}

pub fn ext_token_int(name: &str, args: &[String]) -> i32 {
    let mut h = crate::rng::fnv(name);
    for a in args {
        h = crate::rng::fnv_bytes(h, a.as_bytes());
    }
    (h % 9000) as i32 + 1000
}

impl ExternalFunction for ExtPeer {
    fn call(&mut self, func_name: &str, args: Vec<ValueType>) -> Option<ValueType> {
        let rargs: Vec<String> = args.iter().map(render_value).collect();
        let tok = ext_token_int(func_name, &rargs);
        let (ret, rs) = match self.ret {
            0 => (Some(ValueType::Int(tok)), format!("i:{tok}")),
            1 => {
                let s = format!("X{tok}");
                (Some(ValueType::new::<&str>(&s)), format!("s:{s}"))
            }
            3 => {
                // order-sensitive: p0 + 10*p1 + 100*p2 + 7 (the generator's Ink fallbacks compute the same)
                let mut v: i32 = 7;
                for (k, a) in args.iter().enumerate() {
                    let x = a.coerce_to_int().unwrap_or(0);
                    v = v.wrapping_add(x.wrapping_mul(10i32.wrapping_pow(k as u32)));
                }
                (Some(ValueType::Int(v)), format!("i:{v}"))
            }
            _ => (None, "void".to_string()),
        };
        self.log.borrow_mut().push(Ev::External {
            name: func_name.to_string(),
            args: rargs,
            lines: self.lines.get(),
            ret: rs,
        });
        ret
    }
}

struct HandlerPeer {
    log: Log,
}
impl ErrorHandler for HandlerPeer {
    fn error(&mut self, message: &str, error_type: ErrorType) {
        self.log.borrow_mut().push(Ev::Handler {
            warning: error_type == ErrorType::Warning,
            msg: message.to_string(),
        });
    }
}

// ---------------------------------------------------------------- rendering

pub fn render_value(v: &ValueType) -> String {
    match v {
        ValueType::Bool(b) => format!("b:{b}"),
        ValueType::Int(i) => format!("i:{i}"),
        ValueType::Float(f) => format!("f:{:?}", f),
        ValueType::String(s) => format!("s:{}", s.string),
        ValueType::List(l) => {
            let mut items: Vec<String> = l
                .items
                .iter()
                .map(|(k, v)| {
                    format!(
                        "{}.{}={}",
                        k.get_origin_name().map(|s| s.as_str()).unwrap_or("?"),
                        k.get_item_name(),
                        v
                    )
                })
                .collect();
            items.sort();
            // `origins` is a cache recomputed whenever the list is used by the story; only an
            // empty list's remembered origin names are state (they are what a save carries)
            if items.is_empty() {
                let mut origins: Vec<String> = l.get_origin_names();
                origins.sort();
                origins.dedup();
                format!("l:[]@[{}]", origins.join(","))
            } else {
                format!("l:[{}]", items.join(","))
            }
        }
        ValueType::DivertTarget(p) => format!("d:{p}"),
        ValueType::VariablePointer(_) => "ptr".to_string(),
    }
}

pub fn to_value_type(v: &Val) -> ValueType {
    match v {
        Val::Bool(b) => ValueType::Bool(*b),
        Val::Int(i) => ValueType::Int(*i),
        Val::Float(f) => ValueType::Float(*f as f32),
        Val::Str(s) => ValueType::new::<&str>(s),
    }
}

pub fn canon(j: &J) -> String {
    match j {
        J::Object(m) => {
            let mut keys: Vec<&String> = m.keys().collect();
            keys.sort();
            let parts: Vec<String> = keys
                .iter()
                .map(|k| format!("{}:{}", serde_json::to_string(k).unwrap(), canon(&m[*k])))
                .collect();
            format!("{{{}}}", parts.join(","))
        }
        J::Array(a) => format!("[{}]", a.iter().map(canon).collect::<Vec<_>>().join(",")),
        other => other.to_string(),
    }
}

pub fn err_kind(e: &StoryError) -> &'static str {
    match e {
        StoryError::InvalidStoryState(_) => "InvalidStoryState",
        StoryError::BadJson(_) => "BadJson",
        StoryError::BadArgument(_) => "BadArgument",
    }
}

// --------------------------------------------------------------- observation

#[derive(Clone, Debug, PartialEq, Default)]
pub struct Obs {
    pub can_continue: bool,
    pub text: String,
    pub tags: String,
    pub choices: Vec<String>,
    pub errors: Vec<String>,
    pub warnings: Vec<String>,
    pub path: String,
    pub vars: Vec<(String, String)>,
    pub visits: Vec<(String, String)>,
    pub flow: String,
    pub flows: String,
    pub turn_idx: String,
    pub eval_stack: String,
    pub prev_random: String,
    pub story_seed: String,
    pub visit_counts: String,
    pub turn_indices: String,
    pub save_err: String,
}

impl Obs {
    /// First differing field as (field, expected, actual). `skip` filters fields
    /// (by prefix) that a property deliberately does not compare.
    pub fn first_diff(&self, other: &Obs, skip: &dyn Fn(&str) -> bool) -> Option<(String, String, String)> {
        macro_rules! cmp {
            ($name:expr, $a:expr, $b:expr) => {
                if !skip($name) && $a != $b {
                    return Some(($name.to_string(), format!("{:?}", $a), format!("{:?}", $b)));
                }
            };
        }
        cmp!("can_continue", self.can_continue, other.can_continue);
        cmp!("text", self.text, other.text);
        cmp!("tags", self.tags, other.tags);
        cmp!("choices", self.choices, other.choices);
        cmp!("errors", self.errors, other.errors);
        cmp!("warnings", self.warnings, other.warnings);
        cmp!("path", self.path, other.path);
        if self.vars.len() != other.vars.len() {
            return Some(("vars".into(), format!("{}", self.vars.len()), format!("{}", other.vars.len())));
        }
        for (a, b) in self.vars.iter().zip(other.vars.iter()) {
            let n = format!("var:{}", a.0);
            if !skip(&n) && a != b {
                return Some((n, a.1.clone(), b.1.clone()));
            }
        }
        for (a, b) in self.visits.iter().zip(other.visits.iter()) {
            let n = format!("visits:{}", a.0);
            if !skip(&n) && a != b {
                return Some((n, a.1.clone(), b.1.clone()));
            }
        }
        cmp!("flow", self.flow, other.flow);
        cmp!("flows", self.flows, other.flows);
        cmp!("turn_idx", self.turn_idx, other.turn_idx);
        cmp!("eval_stack", self.eval_stack, other.eval_stack);
        cmp!("prev_random", self.prev_random, other.prev_random);
        cmp!("story_seed", self.story_seed, other.story_seed);
        cmp!("visit_counts", self.visit_counts, other.visit_counts);
        cmp!("turn_indices", self.turn_indices, other.turn_indices);
        cmp!("save_err", self.save_err, other.save_err);
        None
    }

    pub fn digest(&self) -> u64 {
        crate::rng::fnv(&format!("{:?}", self))
    }
}

// ---------------------------------------------------------------- the host

#[derive(Clone, Debug, PartialEq)]
pub enum Res {
    Ok(String),
    Noop,
    Err(String, String),
    Panic(String, String),
    Fuel,
}

impl Res {
    pub fn brief(&self) -> String {
        match self {
            Res::Ok(s) => format!("ok {}", s),
            Res::Noop => "noop".into(),
            Res::Err(k, m) => format!("err {k}: {}", m.chars().take(120).collect::<String>()),
            Res::Panic(s, m) => format!("PANIC {s}: {}", norm_msg(m)),
            Res::Fuel => "FUEL".into(),
        }
    }
    /// Coarse outcome used when two runs are compared.
    pub fn class(&self) -> String {
        match self {
            Res::Ok(s) => format!("ok {s}"),
            Res::Noop => "noop".into(),
            Res::Err(k, m) => format!("err {k} {m}"),
            Res::Panic(s, _) => format!("panic {s}"),
            Res::Fuel => "fuel".into(),
        }
    }
    /// Like `class`, but an error is identified by its kind only (messages may
    /// embed counts of earlier, unrelated messages).
    pub fn class_kind(&self) -> String {
        match self {
            Res::Err(k, _) => format!("err {k}"),
            other => other.class(),
        }
    }
    pub fn is_err(&self) -> bool {
        matches!(self, Res::Err(..))
    }
    pub fn is_panic(&self) -> bool {
        matches!(self, Res::Panic(..))
    }
}

pub const GUARDED_CALLS: &[&str] = &[
    "continue_maximally",
    "choose_path_string",
    "choose_path_string(keep call stack)",
    "choose_path_string(with arguments)",
    "choose_path_string(unknown path)",
    "evaluate_function",
    "evaluate_function(with arguments)",
    "evaluate_function(unknown)",
    "reset_state",
    "switch_flow",
    "switch_flow(existing flow)",
    "observe_variable",
    "remove_variable_observer",
    "bind_external_function",
    "unbind_external_function",
    "get_current_text",
    "get_current_tags",
];

pub struct Host<'p> {
    pub prog: &'p Program,
    pub story: Option<Story>,
    pub log: Log,
    pub lines: Rc<Cell<usize>>,
    obs_peers: Vec<Rc<RefCell<dyn VariableObserver>>>,
    ext_peer: Rc<RefCell<dyn ExternalFunction>>,
    handler_peer: Rc<RefCell<dyn ErrorHandler>>,
    /// what the host believes it has registered (re-attached after a crash)
    pub regs: Vec<(u8, String)>,
    pub binds: Vec<(String, bool)>,
    pub handler: bool,
    pub fallbacks: bool,
    pub slots: BTreeMap<u8, String>,
    pub dead: Option<(String, String)>,
    pub fuel_out: bool,
    pub op_idx: usize,
    /// C08: try every guarded call at each pause
    pub probe_paused: bool,
    pub pauses_taken: u64,
    pub pauses_with_snapshot_hint: u64,
    /// clock reads made by the calls of the last sliced continue (sum over its calls)
    pub last_sliced_reads: u64,
    pub async_limit_ms: f32,
}

const N_OBS: u8 = 4;

impl<'p> Host<'p> {
    /// Build a host with a freshly constructed story. `Err` carries the result
    /// of a failed construction.
    pub fn new(prog: &'p Program, cfg: &HostCfg) -> Result<Host<'p>, Res> {
        let log: Log = Rc::new(RefCell::new(Vec::new()));
        let lines = Rc::new(Cell::new(0usize));
        let mut obs_peers: Vec<Rc<RefCell<dyn VariableObserver>>> = Vec::new();
        for id in 0..N_OBS {
            obs_peers.push(Rc::new(RefCell::new(ObsPeer { id, log: log.clone() })));
        }
        let ext_peer: Rc<RefCell<dyn ExternalFunction>> =
            Rc::new(RefCell::new(ExtPeer { log: log.clone(), lines: lines.clone(), ret: cfg.ext_ret }));
        let handler_peer: Rc<RefCell<dyn ErrorHandler>> = Rc::new(RefCell::new(HandlerPeer { log: log.clone() }));
        let mut h = Host {
            prog,
            story: None,
            log,
            lines,
            obs_peers,
            ext_peer,
            handler_peer,
            regs: Vec::new(),
            binds: cfg.bindings.clone(),
            handler: cfg.handler,
            fallbacks: cfg.fallbacks,
            slots: BTreeMap::new(),
            dead: None,
            fuel_out: false,
            op_idx: 0,
            probe_paused: false,
            pauses_taken: 0,
            pauses_with_snapshot_hint: 0,
            last_sliced_reads: 0,
            async_limit_ms: 1.0,
        };
        let want_regs = cfg.observers.clone();
        match h.construct() {
            Res::Ok(_) => {}
            other => return Err(other),
        }
        for (o, v) in want_regs {
            let _ = h.apply(&Op::Observe { obs: o, var: v });
        }
        h.log.borrow_mut().clear();
        h.op_idx = 0;
        Ok(h)
    }

    fn construct(&mut self) -> Res {
        self.story = None;
        let json = &self.prog.json;
        let r = catch_unwind(AssertUnwindSafe(|| Story::new(json)));
        match r {
            Err(_) => {
                let (s, m) = take_panic().unwrap_or(("?".into(), "?".into()));
                self.dead = Some((s.clone(), m.clone()));
                Res::Panic(s, m)
            }
            Ok(Err(e)) => Res::Err(err_kind(&e).into(), e.to_string()),
            Ok(Ok(mut st)) => {
                if bladeink::verif::fuel_exhausted() {
                    self.fuel_out = true;
                    return Res::Fuel;
                }
                if self.handler {
                    st.set_error_handler(self.handler_peer.clone());
                }
                st.set_allow_external_function_fallbacks(self.fallbacks);
                for (name, safe) in self.binds.clone() {
                    let _ = st.bind_external_function(&name, self.ext_peer.clone(), safe);
                }
                for (o, v) in self.regs.clone() {
                    let _ = st.observe_variable(&v, self.obs_peers[o as usize % N_OBS as usize].clone());
                }
                self.story = Some(st);
                Res::Ok(String::new())
            }
        }
    }

    pub fn alive(&self) -> bool {
        self.story.is_some() && self.dead.is_none() && !self.fuel_out
    }

    /// Run one library call with panic and fuel detection.
    fn guard<R>(&mut self, f: impl FnOnce(&mut Story) -> Result<R, StoryError>) -> Result<R, Res> {
        let st = match self.story.as_mut() {
            Some(s) => s,
            None => return Err(Res::Noop),
        };
        let r = catch_unwind(AssertUnwindSafe(|| f(st)));
        let fuel = bladeink::verif::fuel_exhausted();
        match r {
            Err(_) => {
                let (s, m) = take_panic().unwrap_or(("?".into(), "?".into()));
                self.dead = Some((s.clone(), m.clone()));
                Err(Res::Panic(s, m))
            }
            Ok(_) if fuel => {
                self.fuel_out = true;
                Err(Res::Fuel)
            }
            Ok(Ok(v)) => Ok(v),
            Ok(Err(e)) => Err(Res::Err(err_kind(&e).into(), e.to_string())),
        }
    }

    pub fn can_continue(&self) -> bool {
        self.story.as_ref().map(|s| s.can_continue()).unwrap_or(false)
    }

    pub fn choices(&self) -> Vec<String> {
        match self.story.as_ref() {
            Some(s) => {
                let r = catch_unwind(AssertUnwindSafe(|| {
                    s.get_current_choices()
                        .iter()
                        .map(|c| format!("{}|{:?}|{}", c.text, c.tags, c.index.borrow()))
                        .collect::<Vec<_>>()
                }));
                match r {
                    Ok(v) => v,
                    Err(_) => {
                        let _ = take_panic();
                        vec!["<panic>".into()]
                    }
                }
            }
            None => vec![],
        }
    }

    pub fn flows_alive(&mut self) -> Vec<String> {
        let s = match self.guard(|s| s.save_state()) {
            Ok(s) => s,
            Err(_) => return vec![],
        };
        let j: J = serde_json::from_str(&s).unwrap_or(J::Null);
        let mut v: Vec<String> = j
            .get("flows")
            .and_then(|f| f.as_object())
            .map(|m| m.keys().cloned().collect())
            .unwrap_or_default();
        v.sort();
        v
    }

    pub fn current_flow(&mut self) -> String {
        let s = match self.guard(|s| s.save_state()) {
            Ok(s) => s,
            Err(_) => return String::new(),
        };
        let j: J = serde_json::from_str(&s).unwrap_or(J::Null);
        j.get("currentFlowName").and_then(|x| x.as_str()).unwrap_or("").to_string()
    }

    fn finish_line(&mut self, text: &str) -> String {
        let tags = match self.guard(|s| s.get_current_tags()) {
            Ok(t) => t,
            Err(_) => vec!["<err>".into()],
        };
        self.lines.set(self.lines.get() + 1);
        self.log.borrow_mut().push(Ev::Line { text: text.to_string(), tags: tags.clone() });
        format!("{:?} {:?}", text, tags)
    }

    fn try_guarded_calls(&mut self) {
        // every call protected by `if_async_we_cant` must be refused and change nothing
        for name in GUARDED_CALLS {
            let knot = self.prog.info.knots.first().cloned().unwrap_or_else(|| "nowhere".into());
            let knot2 = self.prog.info.knots.last().cloned().unwrap_or_else(|| "nowhere".into());
            let flows = self.flows_alive();
            let func = self.prog.info.functions.first().cloned().unwrap_or_else(|| knot.clone());
            let var = self.prog.info.globals.first().cloned().unwrap_or_else(|| "novar".into());
            let peer = self.obs_peers[3].clone();
            let ext = self.ext_peer.clone();
            let r: Result<(), Res> = match *name {
                "continue_maximally" => self.guard(|s| s.continue_maximally().map(|_| ())),
                "choose_path_string" => self.guard(|s| s.choose_path_string(&knot, true, None)),
                // the same refusal whatever the arguments: valid or not, with or without a call-stack reset
                "choose_path_string(keep call stack)" => self.guard(|s| s.choose_path_string(&knot2, false, None)),
                "choose_path_string(with arguments)" => self.guard(|s| s.choose_path_string(&knot, false, Some(&vec![ValueType::Int(1)]))),
                "choose_path_string(unknown path)" => self.guard(|s| s.choose_path_string("no_such_knot_probe", false, None)),
                "evaluate_function(with arguments)" => self.guard(|s| {
                    let mut out = String::new();
                    s.evaluate_function(&func, Some(&vec![ValueType::Int(1), ValueType::Int(2)]), &mut out).map(|_| ())
                }),
                "evaluate_function(unknown)" => self.guard(|s| {
                    let mut out = String::new();
                    s.evaluate_function("no_such_function_probe", None, &mut out).map(|_| ())
                }),
                "switch_flow(existing flow)" => {
                    let f = flows.iter().find(|f| f.as_str() != "DEFAULT_FLOW").cloned().unwrap_or_else(|| "paused_probe_flow2".into());
                    self.guard(|s| s.switch_flow(&f))
                }
                "evaluate_function" => self.guard(|s| {
                    let mut out = String::new();
                    s.evaluate_function(&func, None, &mut out).map(|_| ())
                }),
                "reset_state" => self.guard(|s| s.reset_state()),
                "switch_flow" => self.guard(|s| s.switch_flow("paused_probe_flow")),
                "observe_variable" => self.guard(|s| s.observe_variable(&var, peer)),
                "remove_variable_observer" => self.guard(|s| s.remove_variable_observer(&peer, Some("__none__"))),
                "bind_external_function" => self.guard(|s| s.bind_external_function("__probe_ext__", ext, true)),
                "unbind_external_function" => self.guard(|s| s.unbind_external_function("__probe_ext__")),
                "get_current_text" => self.guard(|s| s.get_current_text().map(|_| ())),
                "get_current_tags" => self.guard(|s| s.get_current_tags().map(|_| ())),
                _ => Ok(()),
            };
            let refused = matches!(r, Err(Res::Err(..)));
            self.log.borrow_mut().push(Ev::PausedCall { call: name.to_string(), refused });
            if !self.alive() {
                return;
            }
        }
    }

    fn sliced(&mut self, pauses: &[u32], finish_plain: bool, repeat_last: bool) -> Res {
        if !self.can_continue() {
            return Res::Noop;
        }
        let limit = self.async_limit_ms;
        let jump_ns = ((limit as u64) + 2) * 1_000_000;
        seams::clock_arm();
        self.last_sliced_reads = 0;
        let mut i = 0usize;
        let mut calls = 0u32;
        let res = loop {
            calls += 1;
            if calls > 10_000 {
                break Res::Err("Harness".into(), "sliced continue did not finish in 10000 calls".into());
            }
            let p = match pauses.get(i).copied() {
                Some(p) => Some(p),
                None if repeat_last => pauses.last().copied(),
                None => None,
            };
            let use_plain = p.is_none() && finish_plain;
            let r = if use_plain {
                // time passes while the blocking call runs (2.5 ms per clock read): a blocking
                // continue has no time limit, so it must not care
                seams::clock_begin_call(0, 0, 2_500_000);
                self.guard(|s| s.cont().map(|_| ()))
            } else {
                seams::clock_begin_call(p.unwrap_or(0) as u64, jump_ns, 0);
                self.guard(|s| s.continue_async(limit))
            };
            i += 1;
            self.last_sliced_reads += seams::clock_reads();
            if let Err(e) = r {
                break e;
            }
            // finished?
            match self.guard(|s| s.get_current_text()) {
                Ok(t) => {
                    let d = self.finish_line(&t);
                    break Res::Ok(d);
                }
                Err(Res::Err(_, m)) if m.contains("continue_async") => {
                    self.pauses_taken += 1;
                    if self.probe_paused {
                        self.try_guarded_calls();
                        if !self.alive() {
                            break Res::Err("Harness".into(), "died while paused".into());
                        }
                    }
                }
                Err(e) => break e,
            }
        };
        seams::clock_disarm();
        res
    }

    /// Apply one op. Total: an op that does not make sense in the current state
    /// is a no-op, so every subsequence of a script is a script.
    pub fn apply(&mut self, op: &Op) -> Res {
        if !self.alive() {
            return Res::Noop;
        }
        let res = self.apply_inner(op);
        let idx = self.op_idx;
        self.op_idx += 1;
        self.log.borrow_mut().push(Ev::Op { idx, op: op.short(), res: res.brief() });
        res
    }

    fn declared(&self, v: &str) -> bool {
        self.prog.info.globals.iter().any(|g| g == v)
    }

    fn apply_inner(&mut self, op: &Op) -> Res {
        match op {
            Op::Continue => {
                if !self.can_continue() {
                    return Res::Noop;
                }
                match self.guard(|s| s.cont()) {
                    Ok(t) => Res::Ok(self.finish_line(&t)),
                    Err(e) => e,
                }
            }
            Op::ContinueMax => {
                if !self.can_continue() {
                    return Res::Noop;
                }
                match self.guard(|s| s.continue_maximally()) {
                    Ok(t) => {
                        let n = t.matches('\n').count().max(1);
                        self.lines.set(self.lines.get() + n);
                        self.log.borrow_mut().push(Ev::Line { text: t.clone(), tags: vec!["<max>".into()] });
                        Res::Ok(format!("{:?}", t))
                    }
                    Err(e) => e,
                }
            }
            Op::ContinueSliced { pauses, finish_plain, repeat_last } => self.sliced(pauses, *finish_plain, *repeat_last),
            Op::Choose(k) => {
                if self.can_continue() {
                    return Res::Noop;
                }
                let n = self.story.as_ref().map(|s| s.get_current_choices().len()).unwrap_or(0);
                if n == 0 {
                    return Res::Noop;
                }
                let idx = *k as usize % n;
                match self.guard(|s| s.choose_choice_index(idx)) {
                    Ok(()) => Res::Ok(format!("{idx}")),
                    Err(e) => e,
                }
            }
            Op::Save(slot) => match self.guard(|s| s.save_state()) {
                Ok(t) => {
                    self.slots.insert(*slot, t);
                    Res::Ok(String::new())
                }
                Err(e) => e,
            },
            Op::Load(slot) => {
                let t = match self.slots.get(slot) {
                    Some(t) => t.clone(),
                    None => return Res::Noop,
                };
                match self.guard(|s| s.load_state(&t)) {
                    Ok(()) => Res::Ok(String::new()),
                    Err(e) => e,
                }
            }
            Op::CrashRestore(slot) => {
                let t = match self.slots.get(slot) {
                    Some(t) => t.clone(),
                    None => return Res::Noop,
                };
                match self.construct() {
                    Res::Ok(_) => {}
                    other => return other,
                }
                match self.guard(|s| s.load_state(&t)) {
                    Ok(()) => Res::Ok(String::new()),
                    Err(e) => e,
                }
            }
            Op::SwitchFlow(n) => match self.guard(|s| s.switch_flow(n)) {
                Ok(()) => Res::Ok(String::new()),
                Err(e) => e,
            },
            Op::SwitchDefault => match self.guard(|s| {
                s.switch_to_default_flow();
                Ok(())
            }) {
                Ok(()) => Res::Ok(String::new()),
                Err(e) => e,
            },
            Op::RemoveFlow(n) => {
                let alive = self.flows_alive();
                if !alive.iter().any(|f| f == n) || n == "DEFAULT_FLOW" || alive.len() < 2 {
                    return Res::Noop;
                }
                match self.guard(|s| s.remove_flow(n)) {
                    Ok(()) => Res::Ok(String::new()),
                    Err(e) => e,
                }
            }
            Op::Reset => match self.guard(|s| s.reset_state()) {
                Ok(()) => Res::Ok(String::new()),
                Err(e) => e,
            },
            Op::Jump { path, reset, args } => {
                let a: Vec<ValueType> = args.iter().map(to_value_type).collect();
                let r = *reset;
                match self.guard(|s| s.choose_path_string(path, r, if a.is_empty() { None } else { Some(&a) })) {
                    Ok(()) => Res::Ok(String::new()),
                    Err(e) => e,
                }
            }
            Op::Eval { name, args } => {
                let a: Vec<ValueType> = args.iter().map(to_value_type).collect();
                match self.guard(|s| {
                    let mut out = String::new();
                    let r = s.evaluate_function(name, if a.is_empty() { None } else { Some(&a) }, &mut out)?;
                    Ok((r, out))
                }) {
                    Ok((r, out)) => Res::Ok(format!(
                        "ret={} text={:?}",
                        r.as_ref().map(render_value).unwrap_or_else(|| "none".into()),
                        out
                    )),
                    Err(e) => e,
                }
            }
            Op::SetVar { name, val } => {
                if !self.declared(name) {
                    return Res::Noop;
                }
                let v = to_value_type(val);
                match self.guard(|s| s.set_variable(name, &v)) {
                    Ok(()) => Res::Ok(String::new()),
                    Err(e) => e,
                }
            }
            Op::CopyVar { from, to } => {
                if !self.declared(from) || !self.declared(to) {
                    return Res::Noop;
                }
                let v = match self.story.as_ref().and_then(|s| s.get_variable(from)) {
                    Some(v) => v,
                    None => return Res::Noop,
                };
                match self.guard(|s| s.set_variable(to, &v)) {
                    Ok(()) => Res::Ok(String::new()),
                    Err(e) => e,
                }
            }
            Op::Observe { obs, var } => {
                if !self.declared(var) {
                    return Res::Noop;
                }
                let o = *obs % N_OBS;
                if self.regs.iter().any(|r| r.0 == o && &r.1 == var) {
                    return Res::Noop;
                }
                let peer = self.obs_peers[o as usize].clone();
                match self.guard(|s| s.observe_variable(var, peer)) {
                    Ok(()) => {
                        self.regs.push((o, var.clone()));
                        Res::Ok(String::new())
                    }
                    Err(e) => e,
                }
            }
            Op::Unobserve { obs, var } => {
                let o = *obs % N_OBS;
                let registered = match var {
                    Some(v) => self.regs.iter().any(|r| r.0 == o && &r.1 == v),
                    None => self.regs.iter().any(|r| r.0 == o),
                };
                if !registered {
                    return Res::Noop;
                }
                let peer = self.obs_peers[o as usize].clone();
                let v = var.clone();
                match self.guard(|s| s.remove_variable_observer(&peer, v.as_deref())) {
                    Ok(()) => {
                        match var {
                            Some(v) => self.regs.retain(|r| !(r.0 == o && &r.1 == v)),
                            None => self.regs.retain(|r| r.0 != o),
                        }
                        Res::Ok(String::new())
                    }
                    Err(e) => e,
                }
            }
            Op::Bind { name, safe } => {
                if self.binds.iter().any(|b| &b.0 == name) {
                    return Res::Noop;
                }
                let ext = self.ext_peer.clone();
                let sf = *safe;
                match self.guard(|s| s.bind_external_function(name, ext, sf)) {
                    Ok(()) => {
                        self.binds.push((name.clone(), sf));
                        Res::Ok(String::new())
                    }
                    Err(e) => e,
                }
            }
            Op::Unbind { name } => {
                if !self.binds.iter().any(|b| &b.0 == name) {
                    return Res::Noop;
                }
                match self.guard(|s| s.unbind_external_function(name)) {
                    Ok(()) => {
                        self.binds.retain(|b| &b.0 != name);
                        Res::Ok(String::new())
                    }
                    Err(e) => e,
                }
            }
            Op::SetFallbacks(v) => {
                let v = *v;
                self.fallbacks = v;
                match self.guard(|s| {
                    s.set_allow_external_function_fallbacks(v);
                    Ok(())
                }) {
                    Ok(()) => Res::Ok(String::new()),
                    Err(e) => e,
                }
            }
            Op::SetHandler => {
                let h = self.handler_peer.clone();
                self.handler = true;
                match self.guard(|s| {
                    s.set_error_handler(h);
                    Ok(())
                }) {
                    Ok(()) => Res::Ok(String::new()),
                    Err(e) => e,
                }
            }
            Op::Invalid(kind) => self.invalid(kind),
        }
    }

    /// Perform a call that a correct library must reject. Returns `Noop` when
    /// the call would in fact be valid in the current state.
    fn invalid(&mut self, kind: &InvalidKind) -> Res {
        use InvalidKind::*;
        let unit = |r: Result<(), Res>| match r {
            Ok(()) => Res::Ok(String::new()),
            Err(e) => e,
        };
        match kind {
            ContinueWhenCant => {
                if self.can_continue() {
                    return Res::Noop;
                }
                unit(self.guard(|s| s.cont().map(|_| ())))
            }
            ContinueAsyncWhenCant => {
                if self.can_continue() {
                    return Res::Noop;
                }
                unit(self.guard(|s| s.continue_async(5.0)))
            }
            ContinueMaxWhenCant => {
                if self.can_continue() {
                    return Res::Noop;
                }
                unit(self.guard(|s| s.continue_maximally().map(|_| ())))
            }
            ChooseOutOfRange(k) => {
                let n = self.story.as_ref().map(|s| s.get_current_choices().len()).unwrap_or(0);
                let idx = n + *k as usize;
                unit(self.guard(|s| s.choose_choice_index(idx)))
            }
            ChooseHuge => unit(self.guard(|s| s.choose_choice_index(usize::MAX))),
            SetUndeclared => unit(self.guard(|s| s.set_variable("__undeclared_var__", &ValueType::Int(7)))),
            ObserveUndeclared => {
                let peer = self.obs_peers[0].clone();
                unit(self.guard(|s| s.observe_variable("__undeclared_var__", peer)))
            }
            EvalUnknown => unit(self.guard(|s| {
                let mut o = String::new();
                s.evaluate_function("__no_such_function__", None, &mut o).map(|_| ())
            })),
            EvalEmpty => unit(self.guard(|s| {
                let mut o = String::new();
                s.evaluate_function("", None, &mut o).map(|_| ())
            })),
            EvalWhitespace => unit(self.guard(|s| {
                let mut o = String::new();
                s.evaluate_function("  \t ", None, &mut o).map(|_| ())
            })),
            JumpUnknown { reset } => {
                let r = *reset;
                unit(self.guard(|s| s.choose_path_string("__no_such_knot__", r, None)))
            }
            JumpHostile { reset } => {
                let r = *reset;
                unit(self.guard(|s| s.choose_path_string("no\"such\\knot.^.-1.\u{1F600}", r, None)))
            }
            JumpInsideFunction => {
                // only a rejected call when the current call-stack element is a function
                let inside = self
                    .save_text()
                    .ok()
                    .and_then(|s| serde_json::from_str::<J>(&s).ok())
                    .map(|j| {
                        let flow = j["currentFlowName"].as_str().unwrap_or("DEFAULT_FLOW").to_string();
                        j["flows"][&flow]["callstack"]["threads"]
                            .as_array()
                            .and_then(|t| t.last())
                            .and_then(|t| t["callstack"].as_array())
                            .and_then(|c| c.last())
                            .map(|e| e["type"] == 1)
                            .unwrap_or(false)
                    })
                    .unwrap_or(false);
                let target = self.prog.info.knots.iter().find(|k| !crate::script::is_function(self.prog, k)).cloned();
                match (inside, target) {
                    (true, Some(t)) => {
                        let args = vec![ValueType::Int(7), ValueType::new::<&str>("stale")];
                        unit(self.guard(|s| s.choose_path_string(&t, false, Some(&args))))
                    }
                    _ => Res::Noop,
                }
            }
            RemoveMissingFlow => unit(self.guard(|s| s.remove_flow("__no_such_flow__"))),
            RemoveDefaultFlow => unit(self.guard(|s| s.remove_flow("DEFAULT_FLOW"))),
            RemoveUnregisteredObserver { specific } => {
                // observer 3 is never registered by generated scripts (obs ids are taken mod 3 there)
                if self.regs.iter().any(|r| r.0 == 3) {
                    return Res::Noop;
                }
                let peer = self.obs_peers[3].clone();
                let var = if *specific { self.regs.first().map(|r| r.1.clone()) } else { None };
                if *specific && var.is_none() {
                    return Res::Noop;
                }
                unit(self.guard(|s| s.remove_variable_observer(&peer, var.as_deref())))
            }
            BindTwice => {
                let name = match self.binds.first() {
                    Some(b) => b.0.clone(),
                    None => return Res::Noop,
                };
                let ext = self.ext_peer.clone();
                unit(self.guard(|s| s.bind_external_function(&name, ext, true)))
            }
            UnbindUnbound => unit(self.guard(|s| s.unbind_external_function("__never_bound__"))),
            VisitCountBadPath => unit(self.guard(|s| s.get_visit_count_at_path_string("__no.such.path__").map(|_| ()))),
            TagsBadPath => unit(self.guard(|s| s.tags_for_content_at_path("__no_such_knot__").map(|_| ()))),
        }
    }

    /// Everything a host can see. Does not disturb the story (panics inside an
    /// accessor are turned into marker values).
    pub fn observe(&mut self) -> Obs {
        let mut o = Obs::default();
        if !self.alive() {
            o.text = "<dead>".into();
            return o;
        }
        let prog = self.prog;
        let r = {
            let st = self.story.as_mut().unwrap();
            catch_unwind(AssertUnwindSafe(|| {
                let mut o = Obs::default();
                o.can_continue = st.can_continue();
                o.text = match st.get_current_text() {
                    Ok(t) => t,
                    Err(e) => format!("<err {}>", err_kind(&e)),
                };
                o.tags = match st.get_current_tags() {
                    Ok(t) => format!("{:?}", t),
                    Err(e) => format!("<err {}>", err_kind(&e)),
                };
                o.choices = st
                    .get_current_choices()
                    .iter()
                    .map(|c| format!("{}|{:?}|{}", c.text, c.tags, c.index.borrow()))
                    .collect();
                o.errors = st.get_current_errors().to_vec();
                o.warnings = st.get_current_warnings().to_vec();
                o.path = st.get_current_path().unwrap_or_else(|| "<null>".into());
                for g in &prog.info.globals {
                    let v = st.get_variable(g).map(|v| render_value(&v)).unwrap_or_else(|| "<none>".into());
                    o.vars.push((g.clone(), v));
                }
                for p in &prog.info.counted {
                    let v = match st.get_visit_count_at_path_string(p) {
                        Ok(v) => v.to_string(),
                        Err(e) => format!("<err {}>", err_kind(&e)),
                    };
                    o.visits.push((p.clone(), v));
                }
                match st.save_state() {
                    Ok(s) => {
                        let j: J = serde_json::from_str(&s).unwrap_or(J::Null);
                        o.flow = j.get("currentFlowName").map(|x| x.to_string()).unwrap_or_default();
                        let mut fl: Vec<String> = j
                            .get("flows")
                            .and_then(|f| f.as_object())
                            .map(|m| m.keys().cloned().collect())
                            .unwrap_or_default();
                        fl.sort();
                        o.flows = fl.join(",");
                        o.turn_idx = j.get("turnIdx").map(|x| x.to_string()).unwrap_or_default();
                        o.eval_stack = j.get("evalStack").map(canon).unwrap_or_default();
                        o.prev_random = j.get("previousRandom").map(|x| x.to_string()).unwrap_or_default();
                        o.story_seed = j.get("storySeed").map(|x| x.to_string()).unwrap_or_default();
                        o.visit_counts = j.get("visitCounts").map(canon).unwrap_or_default();
                        o.turn_indices = j.get("turnIndices").map(canon).unwrap_or_default();
                    }
                    Err(e) => o.save_err = format!("{}", e),
                }
                o
            }))
        };
        match r {
            Ok(o) => o,
            Err(_) => {
                let (s, m) = take_panic().unwrap_or(("?".into(), "?".into()));
                self.dead = Some((s.clone(), m.clone()));
                o.text = format!("<panic in accessor {s}: {}>", norm_msg(&m));
                o
            }
        }
    }

    pub fn save_text(&mut self) -> Result<String, Res> {
        self.guard(|s| s.save_state())
    }

    pub fn load_text(&mut self, t: &str) -> Res {
        match self.guard(|s| s.load_state(t)) {
            Ok(()) => Res::Ok(String::new()),
            Err(e) => e,
        }
    }

    pub fn log_render(&self) -> Vec<String> {
        self.log.borrow().iter().map(|e| e.render()).collect()
    }

    pub fn take_log(&self) -> Vec<Ev> {
        std::mem::take(&mut *self.log.borrow_mut())
    }

    pub fn observer_peer(&self, id: u8) -> Rc<RefCell<dyn VariableObserver>> {
        self.obs_peers[id as usize % N_OBS as usize].clone()
    }
}

/// Run `f` as one simulated case: fresh thread, entropy seam seeded, story seed
/// and fuel installed. `Err(true)` = the case did not finish within `timeout_s`
/// (its thread is still running: the caller must end the process soon);
/// `Err(false)` = the thread died outside `catch_unwind`.
pub fn run_case_thread<T: Send + 'static>(
    hash_seed: u64,
    story_seed: i32,
    fuel: u64,
    timeout_s: u64,
    stack_mb: usize,
    f: impl FnOnce() -> T + Send + 'static,
) -> Result<T, bool> {
    let (tx, rx) = std::sync::mpsc::channel::<T>();
    let h = std::thread::Builder::new()
        .stack_size(stack_mb.max(1) << 20)
        .spawn(move || {
            seams::install_entropy(hash_seed);
            bladeink::verif::set_story_seed(Some(story_seed));
            bladeink::verif::set_fuel(Some(fuel));
            bladeink::verif::reset_steps();
            let _ = bladeink::verif::take_probes();
            let r = f();
            let _ = tx.send(r);
        })
        .map_err(|_| false)?;
    match rx.recv_timeout(std::time::Duration::from_secs(timeout_s)) {
        Ok(v) => {
            let _ = h.join();
            Ok(v)
        }
        Err(std::sync::mpsc::RecvTimeoutError::Timeout) => Err(true),
        Err(std::sync::mpsc::RecvTimeoutError::Disconnected) => {
            let _ = h.join();
            Err(false)
        }
    }
}
