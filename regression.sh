#!/bin/bash
# Full regression of the machinery against deliberately broken trees (run it from a snapshot of /verif,
# e.g. `vp run -- ./regression.sh`: it patches /repo's working tree, one change at a time, and reverts).
#  1. sensitivity/run.py: the reverse of every repair and the hand-written mutations (sampler only, except
#     the three repairs whose defect only the thorough tier found: those run with the recorded cases);
#  2. seeded/recheck.py for every stored seeded change.
# HARVEST=1 keeps the minimised schedules in regress/<ID>/ of this tree.
cd "$(dirname "$0")"
export HARVEST=1
echo "##### sensitivity"; python3 sensitivity/run.py 2>&1 | grep -vE "^\s+(Compiling|Finished)"
echo "##### seeded"
for d in seeded/C*/; do
  id=$(basename "$d")
  props=$(python3 -c "import json;print(' '.join(json.load(open('$d/meta.json'))['properties']))")
  echo "== $id $props"; timeout 3000 python3 seeded/recheck.py "$id" $props 2>&1 | tail -4
  git -C /repo reset -q --hard HEAD
done
echo "##### done"
