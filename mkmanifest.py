#!/usr/bin/env python3
"""Writes /verif/MANIFEST.json from the table below (kept in one place so that it stays valid)."""
import json, subprocess

TECH = "deterministic simulation with fault injection"
checks = {
 "C02": ("fault_enumeration", "disk + process crash: crash-restore (save, drop, rebuild, re-attach peers, load) injected at EVERY distinct save point of seeded host histories; restored instance (and a re-save of it, and a second crash) in lockstep with the uninterrupted one",
         "sampled programs and histories; both sides are the real runtime, so an error that save and load share symmetrically without changing behaviour is invisible; errors/warnings not compared", "5 C02",
         "seeded host-call scheduler + crash-restore fault enumeration, lockstep twin oracle"),
 "C03": ("exploration", "entropy seam: the same case under K entropy seeds (all HashMap orders, RandomState) on fresh threads, twice under one seed, in the dev-profile build; traces, canonical saves and compiler output must be identical",
         "sampled programs/histories; story seed fixed through the guarded hook; notification order across different variables excluded", "5 C03",
         "getrandom interposition (simulated entropy), K-seed replay comparison, cross-build digest comparison"),
 "C04": ("exploration", "story faults injected by a fault-prone generator and source mutators under seeded host histories (incl. crash-restore, jumps into functions, wrong-arity evaluations, externals unbound and rebound in mid-story, short evaluations while the main story rests in the middle of an expression); oracle: no panic/abort, zero-division reported, 32-bit wrapping model, reset-after-error in lockstep with fresh, identical logs in the dev (overflow-checked) build",
         "sampled programs/histories; fuel exhaustion discards runaway stories", "5 C04",
         "seeded host-call scheduler + story-fault injection, crash oracle (catch_unwind / worker death), dev-profile sub-build"),
 "C08": ("fault_enumeration", "virtual clock (clock_gettime seam): EVERY single pause position of every continue, the pause-after-every-read schedule and seeded multi-pause plans; guarded calls issued while paused (in argument variants) must be refused; sliced run in lockstep with plain cont(); a case that never finishes is stuck-async",
         "positions sub-sampled above 600 per history; handler call timing excluded (not in the property)", "5 C08",
         "clock interposition, pause-position enumeration, lockstep twin oracle"),
 "C09": ("fault_enumeration", "misbehaving host: every kind of invalid call injected at EVERY distinct boundary of seeded histories, one at a time; must return Err (listed kinds) / not panic and leave the run in lockstep with the uninjected history incl. peer events",
         "sampled programs/histories; load_state excluded (C15)", "5 C09",
         "rejected-call fault enumeration over seeded host histories, lockstep twin oracle"),
 "C10": ("exploration", "K flow clients (named flows, in half of the cases also the default flow) with own scripts and a scheduler: ALL interleavings of two flows with <=4 ops each (<=6 thorough), seeded ones for three flows; crash-restore, switch-away-and-back, switch-to-default, flow removal injected; each flow's projection must equal its alone transcript",
         "flows are disjoint by construction; error-raising scripts discarded", "5 C10",
         "schedule enumeration (exhaustive small bound) + fault injection, per-flow refinement against the alone run"),
 "C11": ("exploration", "observer peers added/removed at arbitrary points, host assignments, resets, loads, crash-restores, lines finished in time-limited slices; every continue bracketed by polls; history oracle: changed => exactly one notification with the final value, unchanged => at most one, none for unregistered pairs, after the last external call",
         "sampled programs/histories; notifications inside reset/load themselves unconstrained", "5 C11",
         "peer simulation + history check against polled committed state"),
 "C12": ("exploration", "external-function peers under five binding configurations (unbound with fallbacks, safe, not safe, unbound without fallbacks, bound then unbound in mid-history with and without Ink fallbacks); call sites carry unique numbers and expected values; history oracle on call multiplicity, ordering relative to delivered lines, refusal in string positions, value placement, completeness of the validation error",
         "sites run at most once per play-through by construction; peers are pure", "5 C12",
         "peer simulation with global event sequence numbers, by-construction history oracle"),
 "C13": ("exploration", "warning and error sites (also in statements that print nothing) with handler / no-handler twins over histories with resets, sliced continues and redirections; delivery history: no duplicates between resets, right type, twin agreement, Err exactly on errors, nothing outlives a reset, nothing is delivered while redirected plain text plays",
         "sites run at most once between resets by construction", "5 C13",
         "peer simulation (error handler), delivery-history oracle with a no-handler twin"),
 "C15": ("fault_enumeration", "disk damage to stories and saves: truncation at every byte (thorough, sliced), bit flips, byte loss/duplication, JSON node delete/retype/duplicate/swap, numeric extremes, nesting bombs, foreign saves, variable-pointer cycles; both loaders (stream-json-parser sub-build); no panic/abort/hang on an 8 MiB stack; reset after failed load in lockstep with fresh",
         "quick tier samples damages; a damaged document that loads is not played", "5 C15",
         "storage fault injection (torn/rotted/foreign documents), crash oracle incl. worker death and watchdog"),
 "C16": ("fault_enumeration", "host evaluation of every pure function injected (twice) at EVERY distinct boundary of seeded histories; lockstep with the uninjected history except the function's own visit counts; repeatability and text checks; the returned value equals what the story itself computes for the same call in a copy of the state",
         "functions pure by construction of the generator", "5 C16",
         "host-call injection enumeration, lockstep twin oracle"),
 "C17": ("exploration", "reset_state and jump-with-reset injected at EVERY prefix of seeded histories (flows, loads, errors, observers); lockstep with a freshly constructed instance incl. peers still attached",
         "programs with a foreign inkVersion excluded (constructor-time warning)", "5 C17",
         "reset injection over seeded host histories, lockstep twin against a fresh instance"),
 "C18": ("exploration", "allocator accounting: N identical create-play-drop cycles, play-reset cycles and load-same-save cycles (programs of both compilers, generated ones, and compiled JSON with a choice retargeted to its own container); live bytes after cycle N must equal live bytes after cycle N/2",
         "per-thread accounting (Story is !Send); first cycles excluded as warm-up", "5 C18",
         "counting global allocator (simulated memory accounting), conservation oracle"),
 "C20": ("exploration", "simulated client of the real rinklecate child process: hostile text, scripted stdin with end-of-input at seeded points, fragments, CRLF and cut-off last lines, plain/JSON mode, -k, compile faults, file layouts (blank lines, byte-order mark); strict JSON stream parsing; transcript equality with the in-process library reference; compile output bytes and error reporting",
         "real process scheduling and pipes (not simulated); one case in eight run twice and diffed", "5 C20",
         "process-level simulation of the client side, library as executable reference model"),
}
na = {
 "C01": "conformance of compile+play to the Ink language is a pure function of (program, choice path); no schedule, clock, fault or history in it; deciding it needs an independent source-level reference interpreter (differential testing), a different technique. Its second sentence (effects after a line end happen exactly once whatever the look-ahead) is exercised under C02, C08, C11, C12.",
 "C05": "agreement of two compilers' outputs along all choice paths of a fixed corpus is a pure differential / translation-validation check with no fault, clock or interleaving dimension.",
 "C06": "compiler totality and well-formedness are properties of a pure text -> Result function over all texts (fuzzing); the only I/O seam, the INCLUDE handler, touches one clause and would not decide the property.",
 "C07": "expression evaluation is a pure function of the expression tree and operand values; its oracle is an independent evaluator, not a history or fault sequence (hash-order independence of list operators is exercised as a by-product by C03).",
 "C14": "the two loaders are two pure functions of the same document selected by a compile-time feature; agreement is a differential check over documents with nothing to schedule or fault (crash-freedom of both loaders under damaged input is covered by C15).",
 "C19": "path <-> object bijection is a static structural property of one loaded content tree; nothing in it depends on a history, clock or fault (its corollary for saved positions is exercised by C02).",
}
hooks_commit = subprocess.run(["git","-C","/repo","log","--format=%h","--grep=^verif:"],capture_output=True,text=True).stdout.split()
m = {
 "version": 1,
 "setup_cmd": "cd /verif && ./setup.sh",
 "hooks": {
   "guard": "cargo feature `verif-hooks` of the bladeink crate (runtime/Cargo.toml), off by default",
   "enable": "the simulator crate /verif/sim depends on bladeink by path with features = [\"verif-hooks\"]; ./check rebuilds it (and the dev / stream-json-parser variants and the rinklecate binary where a property needs them) from /repo's working tree",
   "baseline_off_cmd": "cd /repo && cargo test --workspace --no-fail-fast --offline",
   "source_commits": hooks_commit,
   "add_only": True,
 },
 "engines": [{"name": "inksim", "path": "/verif/sim", "serves_properties": sorted(checks), "kind_free_text": "deterministic simulator: seeded host-call scheduler and fault injector around the real runtime, compiler and CLI; entropy (getrandom), clock (clock_gettime) and allocator seams by link-time interposition in the harness binary; fuel, story-seed and probe hooks behind a cargo feature"}],
 "checks": [],
 "notes": "All checks honour VERIF_SEED (default 1) and VERIF_TIER. Exit 0 = held, 1 = VIOLATION line(s) with a replay file, 2 = harness error. Every batch also re-executes the recorded cases in /verif/regress/<ID>/ (minimised schedules of repaired defects and of deliberately broken trees). Known findings: /verif/known_findings.jsonl (all entries currently 'fixed': every genuine defect found was repaired by a 'fix:' commit in /repo).",
 "not_applicable": [{"property_id": k, "reason": v} for k, v in sorted(na.items())],
}
for pid in sorted(checks):
    level, text, note, ref, tech = checks[pid]
    m["checks"].append({
        "property_id": pid,
        "quick_cmd": f"./check {pid} --tier quick",
        "thorough_cmd": f"./check {pid} --tier thorough",
        "evidence_file": f"/verif/evidence/{pid}.json",
        "replay_cmd_template": f"./check {pid} --replay {{path}}",
        "engine": "inksim",
        "level_claimed": {"category": level, "text": text, "design_ref": f"DESIGN.md section {ref}"},
        "level_note": note,
        "technique": f"{TECH}: {tech}",
    })
json.dump(m, open("/verif/MANIFEST.json", "w"), indent=1)
print("written", len(m["checks"]), "checks,", len(m["not_applicable"]), "not applicable")
